package main

import (
	"fmt"
	"os"

	"verif/internal/chain"
	"verif/internal/checks"
	"verif/internal/ev"
)

func main() {
	if r := os.Getenv("VERIF_ROOT"); r != "" {
		ev.Root = r
		chain.SockRoot = r + "/.work/sock"
	}
	code := run()
	chain.CleanupSockets()
	os.Exit(code)
}

func run() int {
	if len(os.Args) < 3 {
		fmt.Println("usage: vcheck <prop> quick|thorough | vcheck <prop> --replay <path> | vcheck _worker ...")
		return 2
	}
	prop, tier := os.Args[1], os.Args[2]
	if prop == "_worker" {
		return checks.Worker(os.Args[2:])
	}
	if prop == "_c01fresh" {
		return checks.C01Fresh(os.Args[2])
	}
	if tier == "--replay" {
		if len(os.Args) < 4 {
			fmt.Println("missing replay path")
			return 2
		}
		return checks.Replay(prop, os.Args[3])
	}
	if tier != "quick" && tier != "thorough" {
		fmt.Println("tier must be quick or thorough")
		return 2
	}
	f, ok := checks.Registry[prop]
	if !ok {
		fmt.Println("unknown property", prop)
		return 2
	}
	return f(tier)
}
