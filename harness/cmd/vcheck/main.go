package main

import (
	"fmt"
	"os"
	"time"

	"verif/internal/chain"
)

func main() {
	defer chain.CleanupSockets()
	if len(os.Args) > 1 && os.Args[1] == "smoke" {
		smoke()
		return
	}
	fmt.Println("usage: vcheck <prop> <tier>")
	os.Exit(2)
}

func smoke() {
	cfg := chain.Config{
		Vals: []chain.GenVal{{Key: 0, Stake: 2 * chain.MinStake}, {Key: 1, Stake: 3 * chain.MinStake}},
		Accs: []chain.GenAcc{{Key: 0, Balance: 5000000}, {Key: 1, Balance: 5000000}, {Key: 2, Balance: 5000000}, {Key: 3, Balance: 1000000}},
		DAOTokens: 1000000, Owner: 3, DAOOwner: 3, Pruning: [2]int64{0, 1},
	}
	d := chain.NewDriver(cfg)
	defer d.Close()
	fmt.Println("init vals", chain.UpdatesString(d.InitVals), d.RuleErrs)
	t0 := time.Now()
	for i := 0; i < 100; i++ {
		d.RunBlock(chain.Block{}, nil)
	}
	fmt.Println("100 empty blocks", time.Since(t0))
	t0 = time.Now()
	for i := 0; i < 100; i++ {
		r := d.RunBlock(chain.Block{Events: []chain.Event{{Kind: "tx", Tx: &chain.TxSpec{Msg: "send", From: 2, To: 3, Amount: 10}}}}, nil)
		if i == 0 {
			fmt.Println(r.Canon())
		}
	}
	fmt.Println("100 1-tx blocks", time.Since(t0), "lookups", d.Index.Lookups)
	r := d.RunBlock(chain.Block{Events: []chain.Event{{Kind: "tx", Tx: &chain.TxSpec{Msg: "stake", From: 2, Amount: chain.MinStake}}}}, nil)
	fmt.Println(r.Canon())
	v := d.App.Decode(d.App.RawDump())
	fmt.Println("supply", v.Supply, "sum", v.SumBalances(), "pool", v.Pool, "vals", len(v.Vals))
	for _, vv := range v.Vals {
		fmt.Println(vv.Key, vv.Status, vv.Jailed, vv.Stake)
	}
}
