// vsched explores goroutine interleavings of concurrent Get/Has/Set/Delete on one cachekv wrapper.
// It must be built with the overlay produced by vinstr (store/cachekv/store.go instrumented).
//
//	vsched explore <out.json> <maxPreemptions|-1>   exhaustive schedule exploration (controlled scheduler)
//	vsched race <iterations>                         free-running run of the same bodies (for -race builds)
package main

import (
	"encoding/json"
	"fmt"
	"os"
	"sort"
	"strconv"
	"strings"
	"sync"

	"github.com/anishathalye/porcupine"
	"github.com/pokt-network/posmint/store/cachekv"
	"github.com/pokt-network/posmint/store/dbadapter"
	dbm "github.com/tendermint/tm-db"

	"verif/sched/shim"
)

type op struct {
	Kind string `json:"kind"` // get has set del
	Key  string `json:"key"`
	Val  string `json:"val,omitempty"`
}

func (o op) String() string {
	if o.Kind == "set" {
		return fmt.Sprintf("set(%s,%s)", o.Key, o.Val)
	}
	return fmt.Sprintf("%s(%s)", o.Kind, o.Key)
}

type scenario struct {
	Name    string            `json:"name"`
	Preload map[string]string `json:"preload"`
	Threads [][]op            `json:"threads"`
}

func scenarios() []scenario {
	pa := map[string]string{"a": "p"}
	none := map[string]string{}
	g, h, s, d := func(k string) op { return op{Kind: "get", Key: k} }, func(k string) op { return op{Kind: "has", Key: k} },
		func(k, v string) op { return op{Kind: "set", Key: k, Val: v} }, func(k string) op { return op{Kind: "del", Key: k} }
	var out []scenario
	for _, pre := range []map[string]string{pa, none} {
		tag := "preloaded"
		if len(pre) == 0 {
			tag = "empty-parent"
		}
		out = append(out,
			scenario{"set||get/" + tag, pre, [][]op{{s("a", "x")}, {g("a")}}},
			scenario{"get(read-miss caching)||set/" + tag, pre, [][]op{{g("a"), g("a")}, {s("a", "x")}}},
			scenario{"get||del/" + tag, pre, [][]op{{g("a"), g("a")}, {d("a")}}},
			scenario{"set||del/" + tag, pre, [][]op{{s("a", "x"), g("a")}, {d("a"), g("a")}}},
			scenario{"has||set||del/" + tag, pre, [][]op{{h("a")}, {s("a", "x")}, {d("a")}}},
			scenario{"set||set||get,get/" + tag, pre, [][]op{{s("a", "x")}, {s("a", "y")}, {g("a"), g("a")}}},
			scenario{"cross keys/" + tag, pre, [][]op{{s("a", "x"), g("b")}, {s("b", "y"), g("a")}}},
			scenario{"get,get||set,del/" + tag, pre, [][]op{{g("a"), g("a")}, {s("a", "x"), d("a")}}},
			scenario{"get||get||set/" + tag, pre, [][]op{{g("a")}, {g("a")}, {s("a", "x")}}},
			// three goroutines, two operations each (read-after-own-write on a contended key)
			scenario{"set,get||del,get||set,get/" + tag, pre, [][]op{{s("a", "x"), g("a")}, {d("a"), g("a")}, {s("a", "y"), g("a")}}},
			scenario{"has,set||get,del||has,get/" + tag, pre, [][]op{{h("a"), s("a", "x")}, {g("a"), d("a")}, {h("a"), g("a")}}},
			scenario{"cross keys 3/" + tag, pre, [][]op{{s("a", "x"), g("b")}, {s("b", "y"), d("a")}, {g("a"), g("b")}}},
		)
	}
	return out
}

type event struct {
	Thread int
	Op     op
	Out    string // "" absent / value / "true"/"false"
	Call   int64
	Ret    int64
}

type kvInput struct {
	Kind, Key, Val string
}

func kvModel(pre map[string]string) porcupine.Model {
	keys := []string{"a", "b"}
	enc := func(m map[string]string) string {
		var parts []string
		for _, k := range keys {
			if v, ok := m[k]; ok {
				parts = append(parts, k+"="+v)
			}
		}
		return strings.Join(parts, ";")
	}
	dec := func(s string) map[string]string {
		m := map[string]string{}
		if s == "" {
			return m
		}
		for _, p := range strings.Split(s, ";") {
			kv := strings.SplitN(p, "=", 2)
			m[kv[0]] = kv[1]
		}
		return m
	}
	return porcupine.Model{
		Init: func() interface{} { return enc(pre) },
		Step: func(state, input, output interface{}) (bool, interface{}) {
			m := dec(state.(string))
			in := input.(kvInput)
			out := output.(string)
			switch in.Kind {
			case "get":
				v, ok := m[in.Key]
				if !ok {
					return out == "<nil>", state
				}
				return out == v, state
			case "has":
				_, ok := m[in.Key]
				return out == strconv.FormatBool(ok), state
			case "set":
				m[in.Key] = in.Val
				return true, enc(m)
			case "del":
				delete(m, in.Key)
				return true, enc(m)
			}
			return false, state
		},
		Equal: func(a, b interface{}) bool { return a.(string) == b.(string) },
	}
}

type runResult struct {
	events          []event
	final           map[string]string
	parentUnchanged bool
	afterWriteOK    bool
	exec            *shim.Exec
}

func doOp(st *cachekv.Store, o op) string {
	switch o.Kind {
	case "get":
		v := st.Get([]byte(o.Key))
		if v == nil {
			return "<nil>"
		}
		return string(v)
	case "has":
		return strconv.FormatBool(st.Has([]byte(o.Key)))
	case "set":
		st.Set([]byte(o.Key), []byte(o.Val))
	case "del":
		st.Delete([]byte(o.Key))
	}
	return ""
}

func newStore(sc scenario) (*cachekv.Store, dbadapter.Store) {
	parent := dbadapter.Store{DB: dbm.NewMemDB()}
	for k, v := range sc.Preload {
		parent.Set([]byte(k), []byte(v))
	}
	return cachekv.NewStore(parent), parent
}

func runOnce(sc scenario, prefix []int) runResult {
	st, parent := newStore(sc)
	var clock int64
	var res runResult
	evs := make([][]event, len(sc.Threads))
	var bodies []func()
	for ti, ops := range sc.Threads {
		ti, ops := ti, ops
		bodies = append(bodies, func() {
			for _, o := range ops {
				clock++
				e := event{Thread: ti, Op: o, Call: clock}
				e.Out = doOp(st, o)
				clock++
				e.Ret = clock
				evs[ti] = append(evs[ti], e)
			}
		})
	}
	res.exec = shim.Run(prefix, bodies)
	for _, es := range evs {
		res.events = append(res.events, es...)
	}
	if res.exec.Deadlock || res.exec.Err != "" {
		return res
	}
	// after all threads are done (no scheduler active): final reads, parent untouched, Write
	res.final = map[string]string{}
	for _, k := range []string{"a", "b"} {
		clock++
		e := event{Thread: len(sc.Threads), Op: op{Kind: "get", Key: k}, Call: clock}
		e.Out = doOp(st, e.Op)
		clock++
		e.Ret = clock
		res.events = append(res.events, e)
		res.final[k] = e.Out
	}
	res.parentUnchanged = true
	for _, k := range []string{"a", "b"} {
		v := parent.Get([]byte(k))
		want, ok := sc.Preload[k]
		if (v == nil) == ok || (ok && string(v) != want) {
			res.parentUnchanged = false
		}
	}
	st.Write()
	res.afterWriteOK = true
	for _, k := range []string{"a", "b"} {
		v := parent.Get([]byte(k))
		got := "<nil>"
		if v != nil {
			got = string(v)
		}
		if got != res.final[k] {
			res.afterWriteOK = false
		}
	}
	return res
}

func historyString(evs []event) string {
	s := append([]event{}, evs...)
	sort.Slice(s, func(i, j int) bool { return s[i].Call < s[j].Call })
	var parts []string
	for _, e := range s {
		parts = append(parts, fmt.Sprintf("T%d:%s->%s@[%d,%d]", e.Thread, e.Op, e.Out, e.Call, e.Ret))
	}
	return strings.Join(parts, " ")
}

func linearizable(sc scenario, evs []event) bool {
	var ops []porcupine.Operation
	for _, e := range evs {
		ops = append(ops, porcupine.Operation{ClientId: e.Thread, Input: kvInput{e.Op.Kind, e.Op.Key, e.Op.Val}, Call: e.Call, Output: e.Out, Return: e.Ret})
	}
	return porcupine.CheckOperations(kvModel(sc.Preload), ops)
}

type violation struct {
	Scenario    string `json:"scenario"`
	Kind        string `json:"kind"`
	Schedule    []int  `json:"schedule"`
	History     string `json:"history"`
	Preemptions int    `json:"preemptions"`
}

type scOut struct {
	Name       string `json:"name"`
	Executions int64  `json:"executions"`
	Points     int64  `json:"points"`
	Outcomes   int    `json:"distinct_outcomes"`
	Bound      int    `json:"preemption_bound_completed"`
	Unbounded  bool   `json:"unbounded"`
}

type output struct {
	Scenarios  []scOut     `json:"scenarios"`
	Violations []violation `json:"violations"`
	Executions int64       `json:"executions"`
	Replayed   int64       `json:"replayed_twice"`
}

func explore(sc scenario, bound int, out *output, so *scOut, outcomes map[string]bool) {
	var rec func(prefix []int)
	check := func(prefix []int) *shim.Exec {
		r := runOnce(sc, prefix)
		so.Executions++
		so.Points += int64(len(r.exec.Points))
		hs := historyString(r.events)
		// determinism: the first executions of every scenario are replayed and must observe the same
		if so.Executions <= 40 {
			r2 := runOnce(sc, r.exec.Choices())
			out.Replayed++
			if historyString(r2.events) != hs || r2.exec.Err != "" {
				out.Violations = append(out.Violations, violation{sc.Name, "replay-divergence (uncaptured nondeterminism)", r.exec.Choices(), hs + " VS " + historyString(r2.events), 0})
			}
		}
		outcomes[hs[:0]+outcomeKey(r)] = true
		fail := func(kind string) {
			if len(out.Violations) < 50 {
				out.Violations = append(out.Violations, violation{sc.Name, kind, r.exec.Choices(), hs, r.exec.Preemptions(len(r.exec.Points))})
			}
		}
		switch {
		case r.exec.Err != "":
			fail("error: " + r.exec.Err)
		case r.exec.Deadlock:
			fail("deadlock")
		case !linearizable(sc, r.events):
			fail("history-not-linearizable")
		case !r.parentUnchanged:
			fail("parent-changed-before-write")
		case !r.afterWriteOK:
			fail("write-does-not-apply-final-view")
		}
		return r.exec
	}
	rec = func(prefix []int) {
		x := check(prefix)
		ch := x.Choices()
		for i := len(prefix); i < len(x.Points); i++ {
			p := x.Points[i]
			cost := x.Preemptions(i)
			for alt := 1; alt < len(p.Enabled); alt++ {
				c := cost
				if p.RunningEnabled {
					c++
				}
				if bound >= 0 && c > bound {
					continue
				}
				np := append(append([]int{}, ch[:i]...), alt)
				rec(np)
			}
		}
	}
	rec(nil)
}

func outcomeKey(r runResult) string {
	var parts []string
	s := append([]event{}, r.events...)
	sort.Slice(s, func(i, j int) bool {
		if s[i].Thread != s[j].Thread {
			return s[i].Thread < s[j].Thread
		}
		return s[i].Call < s[j].Call
	})
	for _, e := range s {
		parts = append(parts, e.Out)
	}
	return strings.Join(parts, ",")
}

func main() {
	if len(os.Args) < 3 {
		fmt.Println("usage: vsched explore <out.json> <bound> | vsched race <iterations>")
		os.Exit(2)
	}
	switch os.Args[1] {
	case "explore":
		// vsched explore <out.json> <bound> [scenario-index]
		bound, _ := strconv.Atoi(os.Args[3])
		only := -1
		if len(os.Args) > 4 {
			only, _ = strconv.Atoi(os.Args[4])
		}
		out := &output{}
		for i, sc := range scenarios() {
			if only >= 0 && i != only {
				continue
			}
			b := bound
			if len(sc.Threads) <= 2 && bound >= 3 {
				b = bound + 1 // two-thread scenarios afford one more preemption
			}
			so := scOut{Name: sc.Name, Bound: b, Unbounded: b < 0}
			outcomes := map[string]bool{}
			explore(sc, b, out, &so, outcomes)
			so.Outcomes = len(outcomes)
			out.Executions += so.Executions
			out.Scenarios = append(out.Scenarios, so)
		}
		bz, _ := json.MarshalIndent(out, "", " ")
		os.WriteFile(os.Args[2], bz, 0o644)
		if len(out.Violations) > 0 {
			os.Exit(1)
		}
	case "count":
		fmt.Println(len(scenarios()))
	case "race":
		n, _ := strconv.Atoi(os.Args[2])
		for it := 0; it < n; it++ {
			for _, sc := range scenarios() {
				st, _ := newStore(sc)
				var wg sync.WaitGroup
				for rep := 0; rep < 2; rep++ { // hammer the same keys from 2x the threads
					for _, ops := range sc.Threads {
						ops := ops
						wg.Add(1)
						go func() {
							defer wg.Done()
							for _, o := range ops {
								doOp(st, o)
							}
						}()
					}
				}
				wg.Wait()
				st.Write()
			}
		}
		fmt.Println("race run complete")
	}
}
