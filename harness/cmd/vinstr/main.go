// vinstr instruments store/cachekv/store.go of the current working tree for schedule exploration:
// the "sync" import is redirected to verif/sched/shim (Mutex.Lock/Unlock become scheduling points)
// and a Yield() is inserted before every statement of every *Store method, so that removing or
// narrowing a lock makes the interleaving visible to the explorer instead of silently atomic.
// usage: vinstr <repo-root> <out-dir>   (writes <out-dir>/store.go and <out-dir>/overlay.json)
package main

import (
	"bytes"
	"encoding/json"
	"fmt"
	"go/ast"
	"go/format"
	"go/parser"
	"go/token"
	"os"
	"path/filepath"
	"strconv"
)

func yieldStmt() ast.Stmt {
	return &ast.ExprStmt{X: &ast.CallExpr{Fun: &ast.SelectorExpr{X: ast.NewIdent("vshim"), Sel: ast.NewIdent("Yield")}}}
}

func instrBlock(b *ast.BlockStmt) {
	if b == nil {
		return
	}
	var out []ast.Stmt
	for _, s := range b.List {
		out = append(out, yieldStmt(), s)
		instrStmt(s)
	}
	b.List = out
}

func instrStmt(s ast.Stmt) {
	switch t := s.(type) {
	case *ast.BlockStmt:
		instrBlock(t)
	case *ast.IfStmt:
		instrBlock(t.Body)
		if t.Else != nil {
			instrStmt(t.Else)
		}
	case *ast.ForStmt:
		instrBlock(t.Body)
	case *ast.RangeStmt:
		instrBlock(t.Body)
	case *ast.SwitchStmt:
		for _, c := range t.Body.List {
			cc := c.(*ast.CaseClause)
			var out []ast.Stmt
			for _, x := range cc.Body {
				out = append(out, yieldStmt(), x)
				instrStmt(x)
			}
			cc.Body = out
		}
	case *ast.TypeSwitchStmt:
		for _, c := range t.Body.List {
			cc := c.(*ast.CaseClause)
			var out []ast.Stmt
			for _, x := range cc.Body {
				out = append(out, yieldStmt(), x)
				instrStmt(x)
			}
			cc.Body = out
		}
	case *ast.LabeledStmt:
		instrStmt(t.Stmt)
	}
}

func isStoreMethod(fd *ast.FuncDecl) bool {
	if fd.Recv == nil || len(fd.Recv.List) != 1 {
		return false
	}
	t := fd.Recv.List[0].Type
	if st, ok := t.(*ast.StarExpr); ok {
		t = st.X
	}
	id, ok := t.(*ast.Ident)
	return ok && id.Name == "Store"
}

func main() {
	if len(os.Args) < 3 {
		fmt.Println("usage: vinstr <repo-root> <out-dir>")
		os.Exit(2)
	}
	src := filepath.Join(os.Args[1], "store/cachekv/store.go")
	fset := token.NewFileSet()
	f, err := parser.ParseFile(fset, src, nil, parser.ParseComments)
	if err != nil {
		fmt.Println("parse:", err)
		os.Exit(2)
	}
	methods := 0
	for _, d := range f.Decls {
		if fd, ok := d.(*ast.FuncDecl); ok && fd.Body != nil && isStoreMethod(fd) {
			instrBlock(fd.Body)
			methods++
		}
	}
	// imports: redirect "sync", add the shim for Yield
	redirected := false
	for _, im := range f.Imports {
		if p, _ := strconv.Unquote(im.Path.Value); p == "sync" {
			im.Path.Value = strconv.Quote("verif/sched/shim")
			im.Name = ast.NewIdent("sync")
			redirected = true
		}
	}
	for _, d := range f.Decls {
		if gd, ok := d.(*ast.GenDecl); ok && gd.Tok == token.IMPORT {
			gd.Specs = append(gd.Specs, &ast.ImportSpec{Name: ast.NewIdent("vshim"), Path: &ast.BasicLit{Kind: token.STRING, Value: strconv.Quote("verif/sched/shim")}})
			break
		}
	}
	f.Comments = nil // positions are stale after insertion; comments are irrelevant for the build
	var buf bytes.Buffer
	if err := format.Node(&buf, fset, f); err != nil {
		fmt.Println("format:", err)
		os.Exit(2)
	}
	os.MkdirAll(os.Args[2], 0o755)
	out := filepath.Join(os.Args[2], "store.go")
	if err := os.WriteFile(out, buf.Bytes(), 0o644); err != nil {
		fmt.Println(err)
		os.Exit(2)
	}
	ov, _ := json.Marshal(map[string]interface{}{"Replace": map[string]string{src: out}})
	os.WriteFile(filepath.Join(os.Args[2], "overlay.json"), ov, 0o644)
	fmt.Printf("instrumented %d Store methods; sync redirected: %v\n", methods, redirected)
}
