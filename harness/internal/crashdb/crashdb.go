// Package crashdb is a dbm.DB over MemDB that records every durable mutation in order: each plain
// Set/Delete and each Batch.Write is one atomic unit with its operation list (batch atomicity is
// what goleveldb's journal provides and is an assumption of the crash model).
package crashdb

import (
	"bytes"
	"sort"
	"sync"

	dbm "github.com/tendermint/tm-db"
)

// Op is one key mutation.
type Op struct {
	Key    []byte
	Value  []byte
	Delete bool
}

// Unit is one atomic durable write (a plain write or a whole batch).
type Unit struct {
	Ops   []Op
	Batch bool
}

// Prefixes returns the distinct "s/k:<name>/" prefixes (or "" for other keys) the unit touches.
func (u Unit) Prefixes() []string {
	m := map[string]bool{}
	for _, o := range u.Ops {
		m[storePrefix(o.Key)] = true
	}
	var out []string
	for k := range m {
		out = append(out, k)
	}
	sort.Strings(out)
	return out
}

func storePrefix(k []byte) string {
	if bytes.HasPrefix(k, []byte("s/k:")) {
		if i := bytes.IndexByte(k[4:], '/'); i >= 0 {
			return string(k[:4+i+1])
		}
	}
	return ""
}

// DB is the logging database.
type DB struct {
	mu      sync.Mutex
	mem     *dbm.MemDB
	Log     []Unit
	logging bool
	failAt  int // the failAt-th durable write from now on panics instead of being applied (0 = none)
	writes  int
}

// FailAt arms (k > 0) or disarms (k = 0) a write fault: the k-th durable write unit from now on is
// not applied and panics, the way tm-db reports an I/O error; writes after it succeed again (a
// transient error - whatever the dying code still writes from deferred functions reaches the disk).
func (d *DB) FailAt(k int) { d.mu.Lock(); d.failAt, d.writes = k, 0; d.mu.Unlock() }

// fault is called before every durable write unit.
func (d *DB) fault() {
	d.mu.Lock()
	d.writes++
	hit := d.failAt > 0 && d.writes == d.failAt
	d.mu.Unlock()
	if hit {
		panic("crashdb: injected write error")
	}
}

func New() *DB { return &DB{mem: dbm.NewMemDB()} }

// StartLog clears and enables the log.
func (d *DB) StartLog() { d.mu.Lock(); d.Log = nil; d.logging = true; d.mu.Unlock() }

// StopLog disables logging and returns the units recorded.
func (d *DB) StopLog() []Unit {
	d.mu.Lock()
	defer d.mu.Unlock()
	d.logging = false
	l := d.Log
	d.Log = nil
	return l
}

func (d *DB) record(u Unit) {
	d.mu.Lock()
	if d.logging {
		d.Log = append(d.Log, u)
	}
	d.mu.Unlock()
}

// Snapshot copies the current content.
func (d *DB) Snapshot() map[string][]byte {
	out := map[string][]byte{}
	it := d.mem.Iterator(nil, nil)
	for ; it.Valid(); it.Next() {
		out[string(it.Key())] = append([]byte{}, it.Value()...)
	}
	it.Close()
	return out
}

// FromSnapshot builds a plain (non-logging) DB holding snap with the given units applied.
func FromSnapshot(snap map[string][]byte, units []Unit) *DB {
	d := New()
	for k, v := range snap {
		d.mem.Set([]byte(k), v)
	}
	for _, u := range units {
		for _, o := range u.Ops {
			if o.Delete {
				d.mem.Delete(o.Key)
			} else {
				d.mem.Set(o.Key, o.Value)
			}
		}
	}
	return d
}

func cp(b []byte) []byte { return append([]byte{}, b...) }

func (d *DB) Get(k []byte) []byte { return d.mem.Get(k) }
func (d *DB) Has(k []byte) bool   { return d.mem.Has(k) }
func (d *DB) Set(k, v []byte) {
	d.fault()
	d.record(Unit{Ops: []Op{{Key: cp(k), Value: cp(v)}}})
	d.mem.Set(k, v)
}
func (d *DB) SetSync(k, v []byte) { d.Set(k, v) }
func (d *DB) Delete(k []byte) {
	d.fault()
	d.record(Unit{Ops: []Op{{Key: cp(k), Delete: true}}})
	d.mem.Delete(k)
}
func (d *DB) DeleteSync(k []byte)                      { d.Delete(k) }
func (d *DB) Iterator(s, e []byte) dbm.Iterator        { return d.mem.Iterator(s, e) }
func (d *DB) ReverseIterator(s, e []byte) dbm.Iterator { return d.mem.ReverseIterator(s, e) }
func (d *DB) Close()                                   {}
func (d *DB) Print()                                   {}
func (d *DB) Stats() map[string]string                 { return map[string]string{} }
func (d *DB) NewBatch() dbm.Batch                      { return &batch{db: d} }

type batch struct {
	db  *DB
	ops []Op
}

func (b *batch) Set(k, v []byte) { b.ops = append(b.ops, Op{Key: cp(k), Value: cp(v)}) }
func (b *batch) Delete(k []byte) { b.ops = append(b.ops, Op{Key: cp(k), Delete: true}) }
func (b *batch) Write() {
	if len(b.ops) == 0 {
		return
	}
	b.db.fault()
	b.db.record(Unit{Ops: b.ops, Batch: true})
	for _, o := range b.ops {
		if o.Delete {
			b.db.mem.Delete(o.Key)
		} else {
			b.db.mem.Set(o.Key, o.Value)
		}
	}
	b.ops = nil
}
func (b *batch) WriteSync() { b.Write() }
func (b *batch) Close()     {}
