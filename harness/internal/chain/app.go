package chain

// The application under test: BaseApp + auth + pos + gov wired from the repository's exported
// constructors exactly as a real posmint application (pocket-core) does. Harness code, trusted.

import (
	"encoding/json"
	"fmt"
	"github.com/pokt-network/posmint/store/rootmulti"
	"sort"
	"time"

	"github.com/pokt-network/posmint/baseapp"
	"github.com/pokt-network/posmint/codec"
	storeTypes "github.com/pokt-network/posmint/store/types"
	sdk "github.com/pokt-network/posmint/types"
	"github.com/pokt-network/posmint/types/module"
	"github.com/pokt-network/posmint/x/auth"
	authTypes "github.com/pokt-network/posmint/x/auth/types"
	"github.com/pokt-network/posmint/x/gov"
	govKeeper "github.com/pokt-network/posmint/x/gov/keeper"
	govTypes "github.com/pokt-network/posmint/x/gov/types"
	"github.com/pokt-network/posmint/x/pos"
	posKeeper "github.com/pokt-network/posmint/x/pos/keeper"
	posTypes "github.com/pokt-network/posmint/x/pos/types"
	abci "github.com/tendermint/tendermint/abci/types"
	"github.com/tendermint/tendermint/libs/log"
	tmtypes "github.com/tendermint/tendermint/types"
	dbm "github.com/tendermint/tm-db"
)

const (
	ChainID    = "verif-chain"
	AppVersion = "0.0.1"
	Denom      = sdk.DefaultStakeDenom
	MinStake   = posTypes.DefaultMinStake // 1_000_000
)

// Epoch is the fixed genesis time; all block times are offsets from it.
var Epoch = time.Date(2026, 1, 1, 0, 0, 0, 0, time.UTC)

// Fees per message type (the application, not posmint, defines PosFeeMap).
var PosFees = map[string]int64{
	"stake_validator":           20000,
	"begin_unstaking_validator": 15000,
	"unjail":                    12000,
	"send":                      10000,
}

func init() {
	posTypes.PosFeeMap = PosFees
}

var cdcSingleton *codec.Codec

// MakeCodec builds the application codec (same registrations as the repository's tests).
func MakeCodec() *codec.Codec {
	if cdcSingleton != nil {
		return cdcSingleton
	}
	cdc := codec.New()
	auth.RegisterCodec(cdc)
	govTypes.RegisterCodec(cdc)
	posTypes.RegisterCodec(cdc)
	sdk.RegisterCodec(cdc)
	codec.RegisterCrypto(cdc)
	cdcSingleton = cdc
	return cdc
}

// GenVal describes a genesis validator.
type GenVal struct {
	Key   int   `json:"key"`
	Stake int64 `json:"stake"`
}

// GenAcc describes a genesis account.
type GenAcc struct {
	Key     int   `json:"key"`
	Balance int64 `json:"balance"`
	Abc     int64 `json:"abc,omitempty"` // balance in a second denomination "abc"
	// PubKeyOf: key index + 1 of the public key stored on the account when it is NOT the key of its
	// address (a genesis / state-import entry pairing an address with somebody else's key)
	PubKeyOf int `json:"pubkey_of,omitempty"`
}

// Config is a genesis + node configuration. JSON-serialisable so replays are self-contained.
type Config struct {
	Vals        []GenVal       `json:"vals"`
	Accs        []GenAcc       `json:"accs"`
	DAOTokens   int64          `json:"dao_tokens"`
	Owner       int            `json:"owner"`                // key index owning every ACL entry
	ACLOwners   map[string]int `json:"acl_owners,omitempty"` // per-parameter owner overrides
	DAOOwner    int            `json:"dao_owner"`            // key index of the DAO owner
	Pos         *PosParams     `json:"pos,omitempty"`
	FeeMult     *FeeMult       `json:"fee_mult,omitempty"`
	Pruning     [2]int64       `json:"pruning"` // keepRecent, keepEvery; {0,1} = nothing
	MountPerm   int            `json:"mount_perm,omitempty"`
	MaxBlockGas int64          `json:"max_block_gas,omitempty"`
	Lazy        bool           `json:"lazy,omitempty"` // rootmulti lazy loading of the IAVL stores
	// GenHistory: key indices for which the pos genesis carries a signing info and a missed-block
	// array (the content of an exported state: validators and former validators with history)
	GenHistory []int `json:"gen_history,omitempty"`
	// GenSigning: signing state carried by the pos genesis for single validators, as a state export
	// writes it: start height, ring offset, and the ring positions that hold a miss (a sparse list:
	// positions that were signed have no entry)
	GenSigning []GenSign `json:"gen_signing,omitempty"`
	// FreshProc (C01 only): the history is additionally run on an instance in a fresh process
	FreshProc bool `json:"fresh_proc,omitempty"`
}

// PosParams are custom pos parameters (nil => module route with the forced defaults).
type PosParams struct {
	UnstakingTime    time.Duration `json:"unstaking_time"`
	MaxValidators    uint64        `json:"max_validators"`
	StakeMinimum     int64         `json:"stake_minimum"`
	MaxEvidenceAge   time.Duration `json:"max_evidence_age"`
	Window           int64         `json:"window"`
	MinSignedNum     int64         `json:"min_signed_num"` // MinSignedPerWindow = num/den
	MinSignedDen     int64         `json:"min_signed_den"`
	JailDuration     time.Duration `json:"jail_duration"`
	SlashDoubleNum   int64         `json:"slash_double_num"` // fraction = num / 10^18
	SlashDowntimeNum int64         `json:"slash_downtime_num"`
	SlashDoubleStr   string        `json:"slash_double_str,omitempty"` // overrides Num when set (decimal string)
	SlashDowntimeStr string        `json:"slash_downtime_str,omitempty"`
}

// GenSign is the exported signing state of one validator.
type GenSign struct {
	Key    int     `json:"key"`
	Start  int64   `json:"start"`
	Offset int64   `json:"offset"`
	Missed []int64 `json:"missed"`
}

type FeeMult struct {
	Keys    []string `json:"keys"`
	Mults   []int64  `json:"mults"`
	Default int64    `json:"default"`
}

// DefaultPos mirrors posTypes.DefaultParams in PosParams form.
func DefaultPos() PosParams {
	return PosParams{
		UnstakingTime: posTypes.DefaultUnstakingTime, MaxValidators: posTypes.DefaultMaxValidators,
		StakeMinimum: posTypes.DefaultMinStake, MaxEvidenceAge: posTypes.DefaultMaxEvidenceAge,
		Window: posTypes.DefaultSignedBlocksWindow, MinSignedNum: 1, MinSignedDen: 2,
		JailDuration:   posTypes.DefaultDowntimeJailDuration,
		SlashDoubleStr: "0.05", SlashDowntimeStr: "0.01",
	}
}

func (p PosParams) ToParams() posTypes.Params {
	dec := func(s string, num int64) sdk.Dec {
		if s != "" {
			d, err := sdk.NewDecFromStr(s)
			if err != nil {
				panic(err)
			}
			return d
		}
		return sdk.NewDecWithPrec(num, 18)
	}
	return posTypes.Params{
		UnstakingTime: p.UnstakingTime, MaxValidators: p.MaxValidators, StakeDenom: Denom,
		StakeMinimum: p.StakeMinimum, ProposerRewardPercentage: posTypes.DefaultBaseProposerAwardPercentage,
		MaxEvidenceAge: p.MaxEvidenceAge, SignedBlocksWindow: p.Window,
		MinSignedPerWindow:      sdk.NewDec(p.MinSignedNum).Quo(sdk.NewDec(p.MinSignedDen)),
		DowntimeJailDuration:    p.JailDuration,
		SlashFractionDoubleSign: dec(p.SlashDoubleStr, p.SlashDoubleNum),
		SlashFractionDowntime:   dec(p.SlashDowntimeStr, p.SlashDowntimeNum),
	}
}

// App bundles the BaseApp with its keepers.
type App struct {
	*baseapp.BaseApp
	Cdc     *codec.Codec
	Cfg     Config
	DB      dbm.DB
	KeyMain *sdk.KVStoreKey
	KeyAuth *sdk.KVStoreKey
	KeyPos  *sdk.KVStoreKey
	AK      auth.Keeper
	PK      posKeeper.Keeper
	GK      govKeeper.Keeper
	MM      *module.Manager
	Node    *FakeNode
}

var MaccPerms = map[string][]string{
	auth.FeeCollectorName:   nil,
	posTypes.StakedPoolName: {auth.Burner, auth.Minter, auth.Staking},
	posTypes.ModuleName:     nil,
	govTypes.DAOAccountName: {auth.Burner, auth.Minter, auth.Staking},
}

// AllParamKeys lists the 17 registered parameters.
var AllParamKeys = []string{
	"auth/MaxMemoCharacters", "auth/TxSigLimit", "auth/FeeMultipliers",
	"gov/daoOwner", "gov/acl", "gov/upgrade",
	"pos/UnstakingTime", "pos/MaxValidators", "pos/StakeDenom", "pos/StakeMinimum",
	"pos/ProposerRewardPercentage", "pos/MaxEvidenceAge", "pos/SignedBlocksWindow",
	"pos/MinSignedPerWindow", "pos/DowntimeJailDuration", "pos/SlashFractionDoubleSign",
	"pos/SlashFractionDowntime",
}

// StoreNames in canonical order.
var StoreNames = []string{"main", "auth", "pos", "params"}

// NewApp constructs a fresh application instance over db (which may already contain state) and
// loads the latest version. ix is the tx index of the (fake) node.
func NewApp(db dbm.DB, cfg Config, ix *TxIndex) *App {
	cdc := MakeCodec()
	app := &App{Cdc: cdc, Cfg: cfg, DB: db}
	opts := []func(*baseapp.BaseApp){
		baseapp.SetPruning(storeTypes.NewPruningOptions(cfg.Pruning[0], cfg.Pruning[1])),
	}
	app.BaseApp = baseapp.NewBaseApp("verif", log.NewNopLogger(), db, auth.DefaultTxDecoder(cdc), opts...)
	app.SetAppVersion(AppVersion)
	app.KeyMain = sdk.NewKVStoreKey(baseapp.MainStoreKey)
	app.KeyAuth = sdk.NewKVStoreKey(auth.StoreKey)
	app.KeyPos = sdk.NewKVStoreKey(posTypes.StoreKey)

	authSub := sdk.NewSubspace(auth.DefaultParamspace)
	posSub := sdk.NewSubspace(posKeeper.DefaultParamspace)
	app.AK = auth.NewKeeper(cdc, app.KeyAuth, authSub, MaccPerms)
	app.PK = posKeeper.NewKeeper(cdc, app.KeyPos, app.AK, posSub, sdk.CodespaceType(posTypes.ModuleName))
	app.GK = govKeeper.NewKeeper(cdc, sdk.ParamsKey, sdk.ParamsTKey, govTypes.DefaultCodespace, app.AK, authSub, posSub)

	app.MM = module.NewManager(
		auth.NewAppModule(app.AK),
		pos.NewAppModule(app.PK, app.AK),
		gov.NewAppModule(app.GK),
	)
	app.MM.SetOrderBeginBlockers(posTypes.ModuleName, govTypes.ModuleName)
	app.MM.SetOrderEndBlockers(posTypes.ModuleName)
	app.MM.SetOrderInitGenesis(auth.ModuleName, posTypes.ModuleName, govTypes.ModuleName)
	app.MM.RegisterRoutes(app.Router(), app.QueryRouter())

	app.SetInitChainer(app.initChainer)
	app.SetBeginBlocker(func(ctx sdk.Ctx, req abci.RequestBeginBlock) abci.ResponseBeginBlock {
		return app.MM.BeginBlock(ctx, req)
	})
	app.SetEndBlocker(func(ctx sdk.Ctx, req abci.RequestEndBlock) abci.ResponseEndBlock {
		return app.MM.EndBlock(ctx, req)
	})
	app.SetAnteHandler(auth.NewAnteHandler(app.AK))

	// mount order is permuted by cfg.MountPerm (map order inside rootmulti is random anyway)
	keys := []sdk.StoreKey{app.KeyMain, app.KeyAuth, app.KeyPos, sdk.ParamsKey, sdk.ParamsTKey}
	if cfg.MountPerm > 0 {
		r := cfg.MountPerm
		for i := len(keys) - 1; i > 0; i-- {
			j := r % (i + 1)
			r /= (i + 1)
			keys[i], keys[j] = keys[j], keys[i]
		}
	}
	app.MountStores(keys...)
	app.Node = NewFakeNode(ix)
	app.SetTendermintNode(app.Node.Node)
	if cfg.Lazy {
		app.Store().(*rootmulti.Store).SetLazyLoading(true)
	}
	if err := app.LoadLatestVersion(app.KeyMain); err != nil {
		app.Node.Close()
		panic(fmt.Sprintf("LoadLatestVersion: %v", err))
	}
	return app
}

func (app *App) Close() {
	if app.Node != nil {
		app.Node.Close()
	}
}

// GenesisState builds the application genesis for cfg.
func GenesisState(cfg Config) map[string]json.RawMessage {
	cdc := MakeCodec()
	// auth: accounts + module accounts, supply = sum
	var accs authTypes.Accounts
	total := sdk.ZeroInt()
	totalAbc := sdk.ZeroInt()
	staked := sdk.ZeroInt()
	for _, v := range cfg.Vals {
		staked = staked.Add(sdk.NewInt(v.Stake))
	}
	seen := map[int]bool{}
	for _, a := range cfg.Accs {
		if seen[a.Key] {
			panic("duplicate genesis account")
		}
		seen[a.Key] = true
		acc := auth.NewBaseAccountWithAddress(Addr(a.Key))
		if a.Balance > 0 {
			acc.Coins = sdk.NewCoins(sdk.NewCoin(Denom, sdk.NewInt(a.Balance)))
		}
		if a.Abc > 0 {
			acc.Coins = acc.Coins.Add(sdk.NewCoins(sdk.NewCoin("abc", sdk.NewInt(a.Abc))))
			totalAbc = totalAbc.Add(sdk.NewInt(a.Abc))
		}
		acc.PubKey = Pub(a.Key) // auth.ValidateGenesis dereferences the key of every genesis account
		if a.PubKeyOf > 0 {
			acc.PubKey = Pub(a.PubKeyOf - 1)
		}
		ac := acc
		accs = append(accs, &ac)
		total = total.Add(sdk.NewInt(a.Balance))
	}
	// The staked pool is funded by pos.InitGenesis (module accounts cannot be listed: auth's
	// ValidateGenesis dereferences the public key of every account). For a consistent genesis the
	// supply is stated explicitly and includes the staked tokens and the DAO tokens minted by gov.
	total = total.Add(staked)
	sort.Slice(accs, func(i, j int) bool { return string(accs[i].GetAddress()) < string(accs[j].GetAddress()) })
	ap := authTypes.DefaultParams()
	if cfg.FeeMult != nil {
		fm := authTypes.FeeMultipliers{Default: cfg.FeeMult.Default}
		for i, k := range cfg.FeeMult.Keys {
			fm.FeeMultis = append(fm.FeeMultis, authTypes.FeeMultiplier{Key: k, Multiplier: cfg.FeeMult.Mults[i]})
		}
		ap.FeeMultiplier = fm
	}
	ags := authTypes.GenesisState{Params: ap, Accounts: accs}
	if total.IsPositive() {
		ags.Supply = sdk.NewCoins(sdk.NewCoin(Denom, total))
	}
	if totalAbc.IsPositive() {
		ags.Supply = ags.Supply.Add(sdk.NewCoins(sdk.NewCoin("abc", totalAbc)))
	}

	// pos
	pgs := posTypes.DefaultGenesisState()
	if cfg.Pos != nil {
		pgs.Params = cfg.Pos.ToParams()
	}
	for _, v := range cfg.Vals {
		pgs.Validators = append(pgs.Validators, posTypes.NewValidator(Addr(v.Key), Pub(v.Key), sdk.NewInt(v.Stake)))
	}
	if len(cfg.Vals) > 0 {
		pgs.PreviousProposer = Addr(cfg.Vals[0].Key)
	}
	for _, k := range cfg.GenHistory {
		a := Addr(k)
		if pgs.SigningInfos == nil {
			pgs.SigningInfos = map[string]posTypes.ValidatorSigningInfo{}
			pgs.MissedBlocks = map[string][]posTypes.MissedBlock{}
		}
		pgs.SigningInfos[a.String()] = posTypes.ValidatorSigningInfo{Address: a, StartHeight: 0, IndexOffset: 1, JailedUntil: time.Unix(0, 0).UTC(), MissedBlocksCounter: 1}
		pgs.MissedBlocks[a.String()] = []posTypes.MissedBlock{{Index: 0, Missed: true}}
	}

	for _, g := range cfg.GenSigning {
		a := Addr(g.Key)
		if pgs.SigningInfos == nil {
			pgs.SigningInfos = map[string]posTypes.ValidatorSigningInfo{}
			pgs.MissedBlocks = map[string][]posTypes.MissedBlock{}
		}
		pgs.SigningInfos[a.String()] = posTypes.ValidatorSigningInfo{Address: a, StartHeight: g.Start, IndexOffset: g.Offset, JailedUntil: time.Unix(0, 0).UTC(), MissedBlocksCounter: int64(len(g.Missed))}
		var mb []posTypes.MissedBlock
		for _, i := range g.Missed {
			mb = append(mb, posTypes.MissedBlock{Index: i, Missed: true})
		}
		pgs.MissedBlocks[a.String()] = mb
	}

	// gov
	acl := govTypes.ACL(make([]govTypes.ACLPair, 0))
	for _, k := range AllParamKeys {
		acl.SetOwner(k, Addr(cfg.Owner))
	}
	for _, k := range AllParamKeys { // deterministic order
		if o, ok := cfg.ACLOwners[k]; ok {
			acl.SetOwner(k, Addr(o))
		}
	}
	ggs := govTypes.GenesisState{
		Params:    govTypes.Params{ACL: acl, DAOOwner: Addr(cfg.DAOOwner), Upgrade: govTypes.NewUpgrade(0, "")},
		DAOTokens: sdk.NewInt(cfg.DAOTokens),
	}
	return map[string]json.RawMessage{
		auth.ModuleName:     cdc.MustMarshalJSON(ags),
		posTypes.ModuleName: posTypes.ModuleCdc.MustMarshalJSON(pgs),
		govTypes.ModuleName: govTypes.ModuleCdc.MustMarshalJSON(ggs),
	}
}

func (app *App) initChainer(ctx sdk.Ctx, req abci.RequestInitChain) abci.ResponseInitChain {
	var gs map[string]json.RawMessage
	if err := json.Unmarshal(req.AppStateBytes, &gs); err != nil {
		panic(err)
	}
	if app.Cfg.Pos == nil {
		// what a real application does
		return app.MM.InitGenesis(ctx, gs)
	}
	// custom-parameter route: same order, but pos through the exported pos.InitGenesis so that the
	// genesis parameters are honoured (AppModule.InitGenesis forces the defaults).
	app.MM.Modules[auth.ModuleName].InitGenesis(ctx, gs[auth.ModuleName])
	var pgs posTypes.GenesisState
	posTypes.ModuleCdc.MustUnmarshalJSON(gs[posTypes.ModuleName], &pgs)
	ups := pos.InitGenesis(ctx, app.PK, app.AK, pgs)
	app.MM.Modules[govTypes.ModuleName].InitGenesis(ctx, gs[govTypes.ModuleName])
	return abci.ResponseInitChain{Validators: ups}
}

// InitChainRequest builds the RequestInitChain for cfg.
func InitChainRequest(cfg Config) abci.RequestInitChain {
	gs := GenesisState(cfg)
	bz, err := json.Marshal(gs)
	if err != nil {
		panic(err)
	}
	cp := &abci.ConsensusParams{
		Block:     &abci.BlockParams{MaxBytes: 1 << 20, MaxGas: -1},
		Evidence:  &abci.EvidenceParams{MaxAge: 100000},
		Validator: &abci.ValidatorParams{PubKeyTypes: []string{tmtypes.ABCIPubKeyTypeEd25519}},
	}
	if cfg.MaxBlockGas != 0 {
		cp.Block.MaxGas = cfg.MaxBlockGas
	}
	return abci.RequestInitChain{Time: Epoch, ChainId: ChainID, ConsensusParams: cp, AppStateBytes: bz}
}

// Ctx returns a context over the root multistore (the store handlers of a sibling module write to).
func (app *App) Ctx(header abci.Header) sdk.Context {
	return sdk.NewContext(app.Store(), header, false, log.NewNopLogger()).WithAppVersion(AppVersion)
}
