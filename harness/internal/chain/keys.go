package chain

import (
	"fmt"
	"sync"

	"github.com/pokt-network/posmint/crypto"
	sdk "github.com/pokt-network/posmint/types"
	"github.com/tendermint/tendermint/crypto/ed25519"
	"github.com/tendermint/tendermint/crypto/secp256k1"
)

// Deterministic keys: index < 100 => ed25519, 100..199 => secp256k1. No randomness anywhere.
var (
	keyMu    sync.Mutex
	keyCache = map[int]crypto.PrivateKey{}
)

func Key(i int) crypto.PrivateKey {
	keyMu.Lock()
	defer keyMu.Unlock()
	if k, ok := keyCache[i]; ok {
		return k
	}
	var k crypto.PrivateKey
	if i < 100 {
		k = crypto.Ed25519PrivateKey(ed25519.GenPrivKeyFromSecret([]byte(fmt.Sprintf("verif-ed25519-%d", i))))
	} else {
		k = crypto.Secp256k1PrivateKey(secp256k1.GenPrivKeySecp256k1([]byte(fmt.Sprintf("verif-secp256k1-%d", i))))
	}
	keyCache[i] = k
	return k
}

func Pub(i int) crypto.PublicKey { return Key(i).PublicKey() }

func Addr(i int) sdk.Address { return sdk.Address(Pub(i).Address()) }

// KeyIndexByAddr finds the key index (searching 0..n) for an address; -1 if none.
func KeyIndexByAddr(a []byte, n int) int {
	for i := 0; i < n; i++ {
		if string(Addr(i)) == string(a) {
			return i
		}
	}
	return -1
}
