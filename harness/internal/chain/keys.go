package chain

import (
	"fmt"
	"sync"

	"github.com/pokt-network/posmint/crypto"
	sdk "github.com/pokt-network/posmint/types"
	"github.com/tendermint/tendermint/crypto/ed25519"
	"github.com/tendermint/tendermint/crypto/secp256k1"
)

// Deterministic keys: index < 100 => ed25519, 100..199 => secp256k1. No randomness anywhere.
var (
	keyMu    sync.Mutex
	keyCache = map[int]crypto.PrivateKey{}
)

func Key(i int) crypto.PrivateKey {
	keyMu.Lock()
	defer keyMu.Unlock()
	if k, ok := keyCache[i]; ok {
		return k
	}
	var k crypto.PrivateKey
	if i < 100 {
		k = crypto.Ed25519PrivateKey(ed25519.GenPrivKeyFromSecret([]byte(fmt.Sprintf("verif-ed25519-%d", i))))
	} else {
		k = crypto.Secp256k1PrivateKey(secp256k1.GenPrivKeySecp256k1([]byte(fmt.Sprintf("verif-secp256k1-%d", i))))
	}
	keyCache[i] = k
	return k
}

func Pub(i int) crypto.PublicKey { return Key(i).PublicKey() }

// DAOIndex names the address of the DAO module account (a recipient no key belongs to).
const DAOIndex = 900

// EmptyIndex names the zero-length address.
const EmptyIndex = 901

// FeeIndex, PosIndex: the addresses of the fee collector and of the pos module account.
const (
	FeeIndex  = 902
	PosIndex  = 903
	PoolIndex = 904 // the staked-tokens pool
)

func Addr(i int) sdk.Address {
	if i == DAOIndex {
		return sdk.Address(DAOAddr)
	}
	if i == FeeIndex {
		return sdk.Address(FeeAddr)
	}
	if i == PosIndex {
		return sdk.Address(PosAddr)
	}
	if i == PoolIndex {
		return sdk.Address(PoolAddr)
	}
	if i == EmptyIndex {
		return sdk.Address{}
	}
	if i >= OddAddrBase {
		return OddAddr(i)
	}
	return sdk.Address(Pub(i).Address())
}

// OddAddrBase: indices 1000*n + k (n = 1..9, k < 1000) name synthetic addresses that are not 20
// bytes long: the first min(len,20) bytes are those of Addr(k), padded with 0xA0+n up to
// len = 16 + n*... see OddAddr. They have no key; they only receive (awards, transfers).
const OddAddrBase = 1000

// OddAddr(1000*n+k): Addr(k) truncated or extended to 17+n bytes (n=2: 19 bytes, n=6: 23 bytes);
// extensions of the same k with different n share their first 20 bytes.
func OddAddr(i int) sdk.Address {
	n, k := i/OddAddrBase, i%OddAddrBase
	base := []byte(sdk.Address(Pub(k).Address()))
	if n >= 8 {
		// 8000+k / 9000+k: a 20-byte address whose first one / two bytes are 0x51 (the byte the pos
		// module uses as the prefix of its award queue keys)
		out := append([]byte{}, base...)
		for j := 0; j < n-7; j++ {
			out[j] = 0x51
		}
		return sdk.Address(out)
	}
	l := 17 + n
	out := make([]byte, l)
	copy(out, base)
	for j := len(base); j < l; j++ {
		out[j] = byte(0xA0 + n)
	}
	return sdk.Address(out)
}

// KeyIndexByAddr finds the key index (searching 0..n) for an address; -1 if none.
func KeyIndexByAddr(a []byte, n int) int {
	for i := 0; i < n; i++ {
		if string(Addr(i)) == string(a) {
			return i
		}
	}
	return -1
}
