package chain

// The environment driver: plays Tendermint deterministically against one App instance and keeps
// Tendermint's side of the ABCI contract (validator-set pipeline, tx index) in a mirror.

import (
	"bytes"
	"fmt"
	"sort"
	"time"

	sdk "github.com/pokt-network/posmint/types"
	abci "github.com/tendermint/tendermint/abci/types"
	tmtypes "github.com/tendermint/tendermint/types"
	dbm "github.com/tendermint/tm-db"
)

// Event is one in-block event.
type Event struct {
	Kind string  `json:"kind"` // tx | check | simulate | award | burn | query
	Tx   *TxSpec `json:"tx,omitempty"`
	// award / burn (played by "another module" through the exported keeper API)
	Who    int    `json:"who,omitempty"`
	Amount int64  `json:"amount,omitempty"`
	Sev    string `json:"sev,omitempty"` // burn severity (decimal string)
	// query
	Path   string `json:"path,omitempty"`
	Data   []byte `json:"data,omitempty"`
	Height int64  `json:"height,omitempty"`
	Prove  bool   `json:"prove,omitempty"`
}

func (e Event) String() string {
	switch e.Kind {
	case "tx", "check", "simulate":
		return e.Kind + ":" + e.Tx.String()
	case "award":
		return fmt.Sprintf("award(%d,%d)", e.Who, e.Amount)
	case "burn":
		return fmt.Sprintf("burn(%d,%s)", e.Who, e.Sev)
	case "query":
		return fmt.Sprintf("query(%s,h=%d,prove=%v)", e.Path, e.Height, e.Prove)
	}
	return e.Kind
}

// Evidence is one duplicate-vote evidence item.
type Evidence struct {
	Val       int           `json:"val"`        // key index of the accused
	HeightAgo int64         `json:"height_ago"` // infraction height = current height - HeightAgo
	Age       time.Duration `json:"age"`        // evidence time = block time - Age
	Power     int64         `json:"power"`      // reported power; 0 => power in the mirror set (or 1)
}

// Block is one block of a history.
type Block struct {
	DT       time.Duration `json:"dt,omitempty"`       // time step; 0 => 1s
	Proposer int           `json:"proposer,omitempty"` // 0 => first validator of the current set; n>0 => key index n-1; -1 => unknown address; -2 => empty
	Missed   []int         `json:"missed,omitempty"`   // key indices of expected signers that missed
	Evidence []Evidence    `json:"evidence,omitempty"`
	Events   []Event       `json:"events,omitempty"`
	// VotePower: the power the consensus engine reports in the vote of a validator of the previous
	// set, when it is not the power of that set (a reported power larger or smaller than the current one)
	VotePower []VotePow `json:"vote_power,omitempty"`
}

// VotePow overrides the power reported in one validator's vote.
type VotePow struct {
	Val   int   `json:"val"`
	Power int64 `json:"power"`
}

func (b Block) String() string {
	s := ""
	if b.DT != 0 {
		s += fmt.Sprintf("dt=%s ", b.DT)
	}
	if b.Proposer != 0 {
		s += fmt.Sprintf("prop=%d ", b.Proposer)
	}
	if len(b.Missed) > 0 {
		s += fmt.Sprintf("missed=%v ", b.Missed)
	}
	for _, o := range b.VotePower {
		s += fmt.Sprintf("votepower(%d)=%d ", o.Val, o.Power)
	}
	for _, e := range b.Evidence {
		s += fmt.Sprintf("ev(%d,-%d,%s,p=%d) ", e.Val, e.HeightAgo, e.Age, e.Power)
	}
	for _, e := range b.Events {
		s += e.String() + " "
	}
	if s == "" {
		return "-"
	}
	return s[:len(s)-1]
}

// PanicCode marks a call that panicked outside any recover of the application.
const PanicCode = 0xDEAD

// TxResult is the consensus-relevant part of a DeliverTx/CheckTx response.
type TxResult struct {
	Code      uint32
	Codespace string
	Data      []byte
	Events    []abci.Event
	Log       string
}

// BlockResult records every consensus-relevant response of one block.
type BlockResult struct {
	Height      int64
	BeginEvents []abci.Event
	Txs         []TxResult // DeliverTx responses in order
	Aux         []TxResult // CheckTx/Simulate/Query responses in order (not consensus relevant)
	Updates     []abci.ValidatorUpdate
	EndEvents   []abci.Event
	AppHash     []byte
	Panic       string // non-empty if Begin/End/Commit panicked
}

// Canon renders the consensus-relevant responses canonically (Log excluded: recovered panics
// embed stack traces).
func (r BlockResult) Canon() string {
	var b bytes.Buffer
	fmt.Fprintf(&b, "h=%d begin=%s|", r.Height, eventsString(r.BeginEvents))
	for i, t := range r.Txs {
		fmt.Fprintf(&b, "tx%d{%d,%s,%X,%s}|", i, t.Code, t.Codespace, t.Data, eventsString(t.Events))
	}
	fmt.Fprintf(&b, "upd=%s|end=%s|hash=%X|panic=%s", UpdatesString(r.Updates), eventsString(r.EndEvents), r.AppHash, r.Panic)
	return b.String()
}

func eventsString(evs []abci.Event) string {
	var b bytes.Buffer
	for _, e := range evs {
		b.WriteString(e.Type)
		b.WriteByte('[')
		for _, a := range e.Attributes {
			fmt.Fprintf(&b, "%s=%s;", a.Key, a.Value)
		}
		b.WriteByte(']')
	}
	return b.String()
}

func UpdatesString(us []abci.ValidatorUpdate) string {
	var b bytes.Buffer
	for _, u := range us {
		fmt.Fprintf(&b, "%X:%d,", u.PubKey.Data, u.Power)
	}
	return b.String()
}

// TMVal is one validator in the mirror set.
type TMVal struct {
	PubKey []byte
	Addr   []byte
	Power  int64
}

// TMSet is the mirror of a Tendermint validator set, sorted by address.
type TMSet []TMVal

func (s TMSet) Clone() TMSet { return append(TMSet(nil), s...) }

func (s TMSet) Find(addr []byte) int {
	for i, v := range s {
		if bytes.Equal(v.Addr, addr) {
			return i
		}
	}
	return -1
}

func (s TMSet) String() string {
	var b bytes.Buffer
	for _, v := range s {
		fmt.Fprintf(&b, "%X:%d,", v.Addr[:4], v.Power)
	}
	return b.String()
}

// ApplyUpdates applies an ABCI update batch with Tendermint's rules and reports rule violations.
func (s TMSet) ApplyUpdates(us []abci.ValidatorUpdate) (TMSet, []string) {
	var errs []string
	out := s.Clone()
	seen := map[string]bool{}
	for _, u := range us {
		pk, err := tmtypes.PB2TM.PubKey(u.PubKey)
		if err != nil {
			errs = append(errs, "undecodable pubkey in update")
			continue
		}
		addr := pk.Address()
		if seen[string(addr)] {
			errs = append(errs, fmt.Sprintf("duplicate key %X in one update batch", addr))
			continue
		}
		seen[string(addr)] = true
		if u.Power < 0 {
			errs = append(errs, fmt.Sprintf("negative power %d for %X", u.Power, addr))
			continue
		}
		i := out.Find(addr)
		if u.Power == 0 {
			if i < 0 {
				errs = append(errs, fmt.Sprintf("removal of %X which Tendermint does not have", addr))
				continue
			}
			out = append(out[:i:i], out[i+1:]...)
			continue
		}
		if i >= 0 {
			out[i].Power = u.Power
		} else {
			out = append(out, TMVal{PubKey: u.PubKey.Data, Addr: addr, Power: u.Power})
		}
	}
	sort.Slice(out, func(i, j int) bool { return bytes.Compare(out[i].Addr, out[j].Addr) < 0 })
	return out, errs
}

// Driver drives one App.
type Driver struct {
	Cfg    Config
	App    *App
	DB     dbm.DB
	Index  *TxIndex
	Height int64 // last committed height
	Time   time.Time
	// validator-set pipeline: Sets[0] signs block Height+1 ... (set for height h = SetAt(h))
	CurSet  TMSet // set that signs block Height+1 (i.e. validators of block Height+1)
	NextSet TMSet // set of block Height+2
	PrevSet TMSet // set of block Height (its votes are reported in BeginBlock(Height+1))
	// pending (uncommitted) txs of the current block
	pending  [][]byte
	pendRes  []abci.ResponseDeliverTx
	Results  []BlockResult
	InitVals []abci.ValidatorUpdate
	RuleErrs []string // Tendermint update-rule violations seen so far
	entropy  int64
	lastTx   []byte
	Dead     bool // a Begin/End/Commit panicked: the node would have halted
	NumKeys  int
}

// NewDriver creates an app over a fresh MemDB and runs InitChain.
func NewDriver(cfg Config) *Driver {
	d := &Driver{Cfg: cfg, DB: dbm.NewMemDB(), Index: NewTxIndex(), Time: Epoch, NumKeys: 16}
	d.App = NewApp(d.DB, cfg, d.Index)
	res := d.App.InitChain(InitChainRequest(cfg))
	d.InitVals = res.Validators
	set, errs := TMSet{}.ApplyUpdates(res.Validators)
	d.RuleErrs = append(d.RuleErrs, errs...)
	d.PrevSet, d.CurSet, d.NextSet = nil, set, set.Clone()
	return d
}

// NewDriverOnDB is NewDriver over a caller-supplied (e.g. write-logging) database.
func NewDriverOnDB(cfg Config, db dbm.DB) *Driver {
	d := &Driver{Cfg: cfg, DB: db, Index: NewTxIndex(), Time: Epoch, NumKeys: 16}
	d.App = NewApp(d.DB, cfg, d.Index)
	res := d.App.InitChain(InitChainRequest(cfg))
	d.InitVals = res.Validators
	set, errs := TMSet{}.ApplyUpdates(res.Validators)
	d.RuleErrs = append(d.RuleErrs, errs...)
	d.PrevSet, d.CurSet, d.NextSet = nil, set, set.Clone()
	return d
}

// TMState is Tendermint's side of the contract at a block boundary.
type TMState struct {
	Height                   int64
	Time                     time.Time
	PrevSet, CurSet, NextSet TMSet
	Indexed                  map[string]int64 // tx hash -> height
	IndexedRes               map[string]abci.ResponseDeliverTx
}

// TMState snapshots the driver's Tendermint-side state.
func (d *Driver) TMState() TMState {
	st := TMState{Height: d.Height, Time: d.Time, PrevSet: d.PrevSet.Clone(), CurSet: d.CurSet.Clone(), NextSet: d.NextSet.Clone(), Indexed: map[string]int64{}, IndexedRes: map[string]abci.ResponseDeliverTx{}}
	d.Index.mu.Lock()
	for k, v := range d.Index.heights {
		st.Indexed[k] = v
		st.IndexedRes[k] = d.Index.results[k]
	}
	d.Index.mu.Unlock()
	return st
}

// ResumeDriver opens an application on an existing database (after a crash) with Tendermint's
// state st; if the application reports height 0 the chain is initialised again, as Tendermint's
// handshake does.
func ResumeDriver(cfg Config, db dbm.DB, st TMState) (d *Driver, err error) {
	defer func() {
		if r := recover(); r != nil {
			err = fmt.Errorf("%v", r)
		}
	}()
	d = &Driver{Cfg: cfg, DB: db, Index: NewTxIndex(), NumKeys: 16}
	d.Index.Restore(st)
	d.App = NewApp(db, cfg, d.Index)
	d.Height, d.Time, d.PrevSet, d.CurSet, d.NextSet = st.Height, st.Time, st.PrevSet.Clone(), st.CurSet.Clone(), st.NextSet.Clone()
	if d.App.LastBlockHeight() == 0 {
		res := d.App.InitChain(InitChainRequest(cfg))
		d.InitVals = res.Validators
	}
	return d, nil
}

// Restart closes the app and reopens it from the same database (new BaseApp, new keepers).
func (d *Driver) Restart() {
	d.App.Close()
	d.App = NewApp(d.DB, d.Cfg, d.Index)
}

// RestartWith reopens the database with other node-local settings (pruning, lazy loading).
func (d *Driver) RestartWith(pruning [2]int64, lazy bool) {
	d.Cfg.Pruning, d.Cfg.Lazy = pruning, lazy
	d.Restart()
}

func (d *Driver) Close() { d.App.Close() }

func (d *Driver) nextEntropy() int64 { d.entropy++; return d.Height*100000 + d.entropy }

// BuildTx compiles a spec, assigning entropy when unset.
func (d *Driver) BuildTx(t TxSpec) []byte {
	if t.Entropy == 0 && t.Msg != "raw" {
		t.Entropy = d.nextEntropy()
	}
	if t.Msg == "change_param" {
		switch t.Val {
		case "@same": // the bytes currently stored for that parameter
			t.Val = string(d.App.Store().GetKVStore(sdk.ParamsKey).Get([]byte(t.Key)))
			if t.Val == "" {
				t.Val = `"1"`
			}
		case "@empty":
			t.Val = ""
		}
	}
	return Build(t)
}

// header for the next block.
func (d *Driver) header(b Block) abci.Header {
	dt := b.DT
	if dt == 0 {
		dt = time.Second
	}
	var prop []byte
	switch {
	case b.Proposer == 0:
		if len(d.CurSet) > 0 {
			prop = d.CurSet[0].Addr
		} else {
			prop = Addr(0)
		}
	case b.Proposer == -2:
		prop = nil // a header without proposer address
	case b.Proposer < 0:
		prop = bytes.Repeat([]byte{0xEE}, 20)
	default:
		prop = Addr(b.Proposer - 1)
	}
	return abci.Header{ChainID: ChainID, Height: d.Height + 1, Time: d.Time.Add(dt), ProposerAddress: prop}
}

func contains(xs []int, x int) bool {
	for _, y := range xs {
		if y == x {
			return true
		}
	}
	return false
}

// BeginReq builds RequestBeginBlock for block b.
func (d *Driver) BeginReq(b Block) abci.RequestBeginBlock {
	h := d.header(b)
	var votes []abci.VoteInfo
	for _, v := range d.PrevSet {
		idx := KeyIndexByAddr(v.Addr, d.NumKeys)
		pw := v.Power
		for _, o := range b.VotePower {
			if o.Val == idx {
				pw = o.Power
			}
		}
		votes = append(votes, abci.VoteInfo{
			Validator:       abci.Validator{Address: v.Addr, Power: pw},
			SignedLastBlock: !contains(b.Missed, idx),
		})
	}
	var evs []abci.Evidence
	for _, e := range b.Evidence {
		p := e.Power
		if p == 0 {
			p = 1
			for _, set := range []TMSet{d.PrevSet, d.CurSet} {
				if i := set.Find(Addr(e.Val)); i >= 0 {
					p = set[i].Power
					break
				}
			}
		}
		evs = append(evs, abci.Evidence{
			Type:      tmtypes.ABCIEvidenceTypeDuplicateVote,
			Validator: abci.Validator{Address: Addr(e.Val), Power: p},
			Height:    h.Height - e.HeightAgo,
			Time:      h.Time.Add(-e.Age),
		})
	}
	return abci.RequestBeginBlock{Header: h, LastCommitInfo: abci.LastCommitInfo{Votes: votes}, ByzantineValidators: evs}
}

// Hooks lets a check observe the instance around every ABCI call of a block.
type Hooks struct {
	AfterBegin  func(d *Driver, req abci.RequestBeginBlock)
	BeforeEvent func(d *Driver, i int, e Event)
	AfterEvent  func(d *Driver, i int, e Event, res *TxResult)
	AfterEnd    func(d *Driver, ups []abci.ValidatorUpdate)
	AfterCommit func(d *Driver)
}

func recoverInto(dst *string, what string) {
	if r := recover(); r != nil {
		*dst = fmt.Sprintf("%s: %v", what, r)
	}
}

// RunBlock executes one block; a panic in Begin/End/Commit marks the driver dead (the node halts).
func (d *Driver) RunBlock(b Block, hk *Hooks) BlockResult {
	if d.Dead {
		panic("driver is dead")
	}
	res := BlockResult{Height: d.Height + 1}
	d.entropy = 0
	req := d.BeginReq(b)
	func() {
		defer recoverInto(&res.Panic, "BeginBlock")
		r := d.App.BeginBlock(req)
		res.BeginEvents = r.Events
	}()
	if res.Panic != "" {
		d.Dead = true
		d.Results = append(d.Results, res)
		return res
	}
	if hk != nil && hk.AfterBegin != nil {
		hk.AfterBegin(d, req)
	}
	d.pending, d.pendRes = nil, nil
	for i, e := range b.Events {
		if hk != nil && hk.BeforeEvent != nil {
			hk.BeforeEvent(d, i, e)
		}
		tr := d.runEvent(e, req.Header)
		if hk != nil && hk.AfterEvent != nil {
			hk.AfterEvent(d, i, e, tr)
		}
		if tr != nil {
			if e.Kind == "tx" {
				res.Txs = append(res.Txs, *tr)
			} else {
				res.Aux = append(res.Aux, *tr)
			}
		}
	}
	func() {
		defer recoverInto(&res.Panic, "EndBlock")
		r := d.App.EndBlock(abci.RequestEndBlock{Height: req.Header.Height})
		res.Updates = r.ValidatorUpdates
		res.EndEvents = r.Events
	}()
	if res.Panic != "" {
		d.Dead = true
		d.Results = append(d.Results, res)
		return res
	}
	if hk != nil && hk.AfterEnd != nil {
		hk.AfterEnd(d, res.Updates)
	}
	func() {
		defer recoverInto(&res.Panic, "Commit")
		r := d.App.Commit()
		res.AppHash = r.Data
	}()
	if res.Panic != "" {
		d.Dead = true
		d.Results = append(d.Results, res)
		return res
	}
	// Tendermint side: index txs of the committed block, advance the set pipeline.
	d.Height++
	d.Time = req.Header.Time
	for i, tx := range d.pending {
		d.Index.Add(tx, d.Height, d.pendRes[i])
	}
	d.pending, d.pendRes = nil, nil
	newNext, errs := d.NextSet.ApplyUpdates(res.Updates)
	for _, e := range errs {
		d.RuleErrs = append(d.RuleErrs, fmt.Sprintf("h=%d: %s", d.Height, e))
	}
	d.PrevSet, d.CurSet, d.NextSet = d.CurSet, d.NextSet, newNext
	d.Results = append(d.Results, res)
	if hk != nil && hk.AfterCommit != nil {
		hk.AfterCommit(d)
	}
	return res
}

func (d *Driver) runEvent(e Event, h abci.Header) (out *TxResult) {
	// DeliverTx/CheckTx/Query run outside any recover in the application: a panic there would take
	// the process down. The driver turns it into an observable result (Code 0xDEAD, Log = panic).
	defer func() {
		if r := recover(); r != nil {
			if e.Kind == "tx" && d.lastTx != nil {
				d.pending = append(d.pending, d.lastTx)
				d.pendRes = append(d.pendRes, abci.ResponseDeliverTx{Code: PanicCode, Log: fmt.Sprintf("PANIC: %v", r)})
			}
			out = &TxResult{Code: PanicCode, Log: fmt.Sprintf("PANIC: %v", r)}
		}
	}()
	d.lastTx = nil
	switch e.Kind {
	case "tx":
		bz := d.BuildTx(*e.Tx)
		d.lastTx = bz
		r := d.App.DeliverTx(abci.RequestDeliverTx{Tx: bz})
		d.lastTx = nil
		d.pending = append(d.pending, bz)
		d.pendRes = append(d.pendRes, abci.ResponseDeliverTx{Code: r.Code, Codespace: r.Codespace, Data: r.Data, Log: r.Log, Events: r.Events})
		return &TxResult{Code: r.Code, Codespace: r.Codespace, Data: r.Data, Events: r.Events, Log: r.Log}
	case "check":
		bz := d.BuildTx(*e.Tx)
		r := d.App.CheckTx(abci.RequestCheckTx{Tx: bz})
		return &TxResult{Code: r.Code, Codespace: r.Codespace, Data: r.Data, Events: r.Events, Log: r.Log}
	case "simulate":
		bz := d.BuildTx(*e.Tx)
		r := d.App.Query(abci.RequestQuery{Path: "/app/simulate", Data: bz})
		return &TxResult{Code: r.Code, Codespace: r.Codespace, Data: r.Value, Log: r.Log}
	case "query":
		qh := e.Height
		if qh < 0 {
			// relative to the last committed height: -1 = one block earlier (0 if there is none)
			if qh = d.Height + qh; qh < 1 {
				qh = 0
			}
		}
		r := d.App.Query(abci.RequestQuery{Path: e.Path, Data: e.Data, Height: qh, Prove: e.Prove})
		return &TxResult{Code: r.Code, Codespace: r.Codespace, Data: r.Value, Log: r.Log}
	case "award":
		ctx := d.App.Ctx(h)
		d.App.PK.AwardCoinsTo(ctx, sdk.NewInt(e.Amount), Addr(e.Who))
		return nil
	case "burn":
		ctx := d.App.Ctx(h)
		sev, err := sdk.NewDecFromStr(e.Sev)
		if err != nil {
			panic(err)
		}
		d.App.PK.BurnValidator(ctx, Addr(e.Who), sev)
		return nil
	}
	panic("unknown event kind " + e.Kind)
}

// Run executes a history.
func (d *Driver) Run(hist []Block, hk *Hooks) {
	for _, b := range hist {
		if d.Dead {
			return
		}
		d.RunBlock(b, hk)
	}
}
