package chain

import (
	"bytes"
	"encoding/json"
	"fmt"
	"sort"
	"strconv"

	"github.com/pokt-network/posmint/crypto"
	sdk "github.com/pokt-network/posmint/types"
	authTypes "github.com/pokt-network/posmint/x/auth/types"
	govTypes "github.com/pokt-network/posmint/x/gov/types"
	posTypes "github.com/pokt-network/posmint/x/pos/types"
)

// TxSpec is an abstract, JSON-serialisable transaction. It is compiled to signed bytes by Build.
type TxSpec struct {
	Msg    string `json:"msg"` // send stake unstake unjail change_param dao_transfer dao_burn upgrade raw
	From   int    `json:"from"`
	To     int    `json:"to,omitempty"`
	Amount int64  `json:"amount,omitempty"`
	Key    string `json:"key,omitempty"`    // param key
	Val    string `json:"val,omitempty"`    // param value (JSON) / dao action override / upgrade version
	Height int64  `json:"height,omitempty"` // upgrade height
	// signing
	Fee     int64  `json:"fee,omitempty"`     // 0 => exactly the required fee under default multiplier 1; -1 => zero fee (empty coins)
	SignBy  int    `json:"sign_by,omitempty"` // 0 => From; otherwise key index+1
	NoPK    bool   `json:"no_pk,omitempty"`   // omit public key from signature
	Entropy int64  `json:"entropy,omitempty"` // 0 => assigned by driver
	Memo    string `json:"memo,omitempty"`
	Raw     []byte `json:"raw,omitempty"` // Msg == "raw": bytes as they are
}

func (t TxSpec) String() string {
	s := fmt.Sprintf("%s(from=%d", t.Msg, t.From)
	if t.To != 0 || t.Msg == "send" || t.Msg == "dao_transfer" {
		s += fmt.Sprintf(",to=%d", t.To)
	}
	if t.Amount != 0 {
		s += fmt.Sprintf(",amt=%d", t.Amount)
	}
	if t.Key != "" {
		s += ",key=" + t.Key + ",val=" + t.Val
	}
	if t.SignBy != 0 {
		s += fmt.Sprintf(",signby=%d", t.SignBy-1)
	}
	if t.Fee != 0 {
		s += fmt.Sprintf(",fee=%d", t.Fee)
	}
	return s + ")"
}

// BuildMsg compiles the message part.
func BuildMsg(t TxSpec) sdk.Msg {
	switch t.Msg {
	case "send":
		return posTypes.MsgSend{FromAddress: Addr(t.From), ToAddress: Addr(t.To), Amount: sdk.NewInt(t.Amount)}
	case "send_pool":
		return posTypes.MsgSend{FromAddress: Addr(t.From), ToAddress: authTypes.NewModuleAddress(posTypes.StakedPoolName), Amount: sdk.NewInt(t.Amount)}
	case "send_module": // a plain send to the address of the module account named by Key
		return posTypes.MsgSend{FromAddress: Addr(t.From), ToAddress: authTypes.NewModuleAddress(t.Key), Amount: sdk.NewInt(t.Amount)}
	case "stake":
		return posTypes.MsgStake{PubKey: Pub(t.From), Value: sdk.NewInt(t.Amount)}
	case "unstake":
		return posTypes.MsgBeginUnstake{Address: Addr(t.From)}
	case "unstake_other": // begin-unstake for validator To, declared (and signed) by From: signer mismatch by construction impossible; message names To
		return posTypes.MsgBeginUnstake{Address: Addr(t.To)}
	case "unjail":
		return posTypes.MsgUnjail{ValidatorAddr: Addr(t.From)}
	case "unjail_other":
		return posTypes.MsgUnjail{ValidatorAddr: Addr(t.To)}
	case "change_param":
		return govTypes.MsgChangeParam{FromAddress: Addr(t.From), ParamKey: t.Key, ParamVal: []byte(t.Val)}
	case "dao_transfer":
		action := govTypes.DAOTransferString
		if t.Val != "" {
			action = t.Val
		}
		return govTypes.MsgDAOTransfer{FromAddress: Addr(t.From), ToAddress: Addr(t.To), Amount: sdk.NewInt(t.Amount), Action: action}
	case "dao_burn":
		return govTypes.MsgDAOTransfer{FromAddress: Addr(t.From), Amount: sdk.NewInt(t.Amount), Action: govTypes.DAOBurnString}
	case "upgrade":
		return govTypes.MsgUpgrade{Address: Addr(t.From), Upgrade: govTypes.NewUpgrade(t.Height, t.Val)}
	}
	panic("unknown msg kind " + t.Msg)
}

// RequiredFee is the base fee of the message type (multiplier 1).
func RequiredFee(msg sdk.Msg) int64 { return msg.GetFee().Int64() }

// Build compiles a TxSpec to signed, amino-encoded transaction bytes.
func Build(t TxSpec) []byte {
	if t.Msg == "raw" {
		return t.Raw
	}
	msg := BuildMsg(t)
	fee := sdk.NewCoins()
	switch {
	case t.Fee == 0:
		fee = sdk.NewCoins(sdk.NewCoin(Denom, sdk.NewInt(RequiredFee(msg))))
	case t.Fee > 0:
		fee = sdk.NewCoins(sdk.NewCoin(Denom, sdk.NewInt(t.Fee)))
	}
	signer := t.From
	if t.Msg == "unstake_other" || t.Msg == "unjail_other" {
		// the attacker signs a message naming somebody else
		signer = t.From
	}
	if t.SignBy != 0 {
		signer = t.SignBy - 1
	}
	return SignTx(msg, fee, t.Memo, t.Entropy, Key(signer), !t.NoPK)
}

// CanonicalSignBytes is the harness's own rendering of the documented sign bytes: the key-sorted
// JSON object {chain_id, entropy, fee, memo, msg} with int64 and amounts as decimal strings and msg
// = the message's own sign bytes. It is what an independent client implementation signs; the
// repository's StdSignBytes must produce the same bytes (a deviation shows up as rejected
// signatures in every chain-based check and as a C20 violation).
func CanonicalSignBytes(chainID string, entropy int64, fee sdk.Coins, msg sdk.Msg, memo string) []byte {
	js := func(s string) string { b, _ := json.Marshal(s); return string(b) }
	var b bytes.Buffer
	b.WriteString(`{"chain_id":` + js(chainID) + `,"entropy":"` + strconv.FormatInt(entropy, 10) + `","fee":[`)
	sorted := append(sdk.Coins{}, fee...)
	sort.Slice(sorted, func(i, j int) bool { return sorted[i].Denom < sorted[j].Denom })
	for i, c := range sorted {
		if i > 0 {
			b.WriteByte(',')
		}
		b.WriteString(`{"amount":"` + c.Amount.String() + `","denom":` + js(c.Denom) + `}`)
	}
	b.WriteString(`],"memo":` + js(memo) + `,"msg":`)
	b.Write(msg.GetSignBytes())
	b.WriteString(`}`)
	return b.Bytes()
}

// SignTx signs and encodes.
func SignTx(msg sdk.Msg, fee sdk.Coins, memo string, entropy int64, priv crypto.PrivateKey, attachPK bool) []byte {
	sb := CanonicalSignBytes(ChainID, entropy, fee, msg, memo)
	sig, err := priv.Sign(sb)
	if err != nil {
		panic(err)
	}
	ss := authTypes.StdSignature{Signature: sig}
	if attachPK {
		ss.PublicKey = priv.PublicKey()
	}
	tx := authTypes.NewStdTx(msg, fee, ss, memo, entropy)
	bz, err := MakeCodec().MarshalBinaryLengthPrefixed(tx)
	if err != nil {
		panic(err)
	}
	return bz
}
