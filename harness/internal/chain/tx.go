package chain

import (
	"bytes"
	"encoding/base64"
	"encoding/hex"
	"encoding/json"
	"fmt"
	"sort"
	"strconv"
	"strings"

	"github.com/pokt-network/posmint/crypto"
	sdk "github.com/pokt-network/posmint/types"
	authTypes "github.com/pokt-network/posmint/x/auth/types"
	govTypes "github.com/pokt-network/posmint/x/gov/types"
	posTypes "github.com/pokt-network/posmint/x/pos/types"
)

// TxSpec is an abstract, JSON-serialisable transaction. It is compiled to signed bytes by Build.
type TxSpec struct {
	Msg    string `json:"msg"` // send stake unstake unjail change_param dao_transfer dao_burn upgrade raw
	From   int    `json:"from"`
	To     int    `json:"to,omitempty"`
	Amount int64  `json:"amount,omitempty"`
	Key    string `json:"key,omitempty"`    // param key
	Val    string `json:"val,omitempty"`    // param value (JSON) / dao action override / upgrade version
	Height int64  `json:"height,omitempty"` // upgrade height
	// signing
	Fee     int64  `json:"fee,omitempty"`     // 0 => exactly the required fee under default multiplier 1; -1 => zero fee (empty coins)
	FeeAbc  int64  `json:"fee_abc,omitempty"` // > 0: the fee additionally carries that many coins of the second denomination "abc"
	SignBy  int    `json:"sign_by,omitempty"` // 0 => From; otherwise key index+1
	NoPK    bool   `json:"no_pk,omitempty"`   // omit public key from signature
	Entropy int64  `json:"entropy,omitempty"` // 0 => assigned by driver
	Memo    string `json:"memo,omitempty"`
	Raw     []byte `json:"raw,omitempty"` // Msg == "raw": bytes as they are
}

func (t TxSpec) String() string {
	s := fmt.Sprintf("%s(from=%d", t.Msg, t.From)
	if t.To != 0 || t.Msg == "send" || t.Msg == "dao_transfer" {
		s += fmt.Sprintf(",to=%d", t.To)
	}
	if t.Amount != 0 {
		s += fmt.Sprintf(",amt=%d", t.Amount)
	}
	if t.Key != "" {
		s += ",key=" + t.Key + ",val=" + t.Val
	}
	if t.SignBy != 0 {
		s += fmt.Sprintf(",signby=%d", t.SignBy-1)
	}
	if t.Fee != 0 {
		s += fmt.Sprintf(",fee=%d", t.Fee)
	}
	if t.FeeAbc != 0 {
		s += fmt.Sprintf(",fee+=%dabc", t.FeeAbc)
	}
	return s + ")"
}

// BuildMsg compiles the message part.
func BuildMsg(t TxSpec) sdk.Msg {
	switch t.Msg {
	case "send":
		return posTypes.MsgSend{FromAddress: Addr(t.From), ToAddress: Addr(t.To), Amount: sdk.NewInt(t.Amount)}
	case "send_pool":
		return posTypes.MsgSend{FromAddress: Addr(t.From), ToAddress: authTypes.NewModuleAddress(posTypes.StakedPoolName), Amount: sdk.NewInt(t.Amount)}
	case "send_module": // a plain send to the address of the module account named by Key
		return posTypes.MsgSend{FromAddress: Addr(t.From), ToAddress: authTypes.NewModuleAddress(t.Key), Amount: sdk.NewInt(t.Amount)}
	case "stake":
		return posTypes.MsgStake{PubKey: Pub(t.From), Value: sdk.NewInt(t.Amount)}
	case "unstake":
		return posTypes.MsgBeginUnstake{Address: Addr(t.From)}
	case "unstake_other": // begin-unstake for validator To, declared (and signed) by From: signer mismatch by construction impossible; message names To
		return posTypes.MsgBeginUnstake{Address: Addr(t.To)}
	case "unjail":
		return posTypes.MsgUnjail{ValidatorAddr: Addr(t.From)}
	case "unjail_other":
		return posTypes.MsgUnjail{ValidatorAddr: Addr(t.To)}
	case "change_param":
		return govTypes.MsgChangeParam{FromAddress: Addr(t.From), ParamKey: t.Key, ParamVal: []byte(t.Val)}
	case "dao_transfer":
		action := govTypes.DAOTransferString
		if t.Val != "" {
			action = t.Val
		}
		return govTypes.MsgDAOTransfer{FromAddress: Addr(t.From), ToAddress: Addr(t.To), Amount: sdk.NewInt(t.Amount), Action: action}
	case "dao_burn":
		return govTypes.MsgDAOTransfer{FromAddress: Addr(t.From), Amount: sdk.NewInt(t.Amount), Action: govTypes.DAOBurnString}
	case "upgrade":
		return govTypes.MsgUpgrade{Address: Addr(t.From), Upgrade: govTypes.NewUpgrade(t.Height, t.Val)}
	}
	panic("unknown msg kind " + t.Msg)
}

// RequiredFee is the base fee of the message type (multiplier 1).
func RequiredFee(msg sdk.Msg) int64 { return msg.GetFee().Int64() }

// Build compiles a TxSpec to signed, amino-encoded transaction bytes.
func Build(t TxSpec) []byte {
	if t.Msg == "raw" {
		return t.Raw
	}
	msg := BuildMsg(t)
	fee := sdk.NewCoins()
	switch {
	case t.Fee == 0:
		fee = sdk.NewCoins(sdk.NewCoin(Denom, sdk.NewInt(RequiredFee(msg))))
	case t.Fee > 0:
		fee = sdk.NewCoins(sdk.NewCoin(Denom, sdk.NewInt(t.Fee)))
	}
	if t.FeeAbc > 0 {
		fee = fee.Add(sdk.NewCoins(sdk.NewCoin("abc", sdk.NewInt(t.FeeAbc))))
	}
	signer := t.From
	if t.Msg == "unstake_other" || t.Msg == "unjail_other" {
		// the attacker signs a message naming somebody else
		signer = t.From
	}
	if t.SignBy != 0 {
		signer = t.SignBy - 1
	}
	return SignTx(msg, fee, t.Memo, t.Entropy, Key(signer), !t.NoPK)
}

// CanonicalSignBytes is the harness's own rendering of the documented sign bytes: the key-sorted
// JSON object {chain_id, entropy, fee, memo, msg} with int64 and amounts as decimal strings and msg
// = the message's own sign bytes. It is what an independent client implementation signs; the
// repository's StdSignBytes must produce the same bytes (a deviation shows up as rejected
// signatures in every chain-based check and as a C20 violation).
func CanonicalSignBytes(chainID string, entropy int64, fee sdk.Coins, msg sdk.Msg, memo string) []byte {
	js := func(s string) string { b, _ := json.Marshal(s); return string(b) }
	var b bytes.Buffer
	b.WriteString(`{"chain_id":` + js(chainID) + `,"entropy":"` + strconv.FormatInt(entropy, 10) + `","fee":[`)
	sorted := append(sdk.Coins{}, fee...)
	sort.Slice(sorted, func(i, j int) bool { return sorted[i].Denom < sorted[j].Denom })
	for i, c := range sorted {
		if i > 0 {
			b.WriteByte(',')
		}
		b.WriteString(`{"amount":"` + c.Amount.String() + `","denom":` + js(c.Denom) + `}`)
	}
	b.WriteString(`],"memo":` + js(memo) + `,"msg":`)
	b.Write(MsgSignJSON(msg))
	b.WriteString(`}`)
	return b.Bytes()
}

// MsgSignJSON is the harness's own rendering of the documented sign bytes of a message: the amino
// JSON form {"type": <registered name>, "value": {fields}} with object keys sorted, written field by
// field from the message structs (addresses as lower-case hex, integers as decimal strings, byte
// slices as base64, public keys as {"type","value": hex}). It does not call the message's
// GetSignBytes, so a message that leaves a field out of its own sign bytes is noticed. Message
// types it does not know fall back to GetSignBytes.
func MsgSignJSON(msg sdk.Msg) []byte {
	q := func(s string) string { b, _ := json.Marshal(s); return string(b) }
	addr := func(a sdk.Address) string { return q(hex.EncodeToString(a)) }
	num := func(i sdk.Int) string { return q(i.String()) }
	var pk func(k crypto.PublicKey) (string, bool)
	pk = func(k crypto.PublicKey) (string, bool) {
		switch t := k.(type) {
		case crypto.Ed25519PublicKey:
			return `{"type":"crypto/ed25519_public_key","value":` + q(hex.EncodeToString(t.RawBytes())) + `}`, true
		case crypto.Secp256k1PublicKey:
			return `{"type":"crypto/secp256k1_public_key","value":` + q(hex.EncodeToString(t.RawBytes())) + `}`, true
		case crypto.PublicKeyMultiSignature:
			parts := []string{}
			for _, sub := range t.PublicKeys {
				s, ok := pk(sub)
				if !ok {
					return "", false
				}
				parts = append(parts, s)
			}
			keys := "null"
			if t.PublicKeys != nil {
				keys = "[" + strings.Join(parts, ",") + "]"
			}
			return `{"type":"crypto/public_key_multi_signature","value":{"keys":` + keys + `}}`, true
		}
		return "", false
	}
	bz := func(b []byte) string {
		if b == nil {
			return "null"
		}
		return q(base64.StdEncoding.EncodeToString(b))
	}
	switch m := msg.(type) {
	case posTypes.MsgSend:
		return []byte(`{"type":"pos/Send","value":{"Amount":` + num(m.Amount) + `,"FromAddress":` + addr(m.FromAddress) + `,"ToAddress":` + addr(m.ToAddress) + `}}`)
	case posTypes.MsgStake:
		if k, ok := pk(m.PubKey); ok {
			return []byte(`{"type":"pos/MsgStake","value":{"pubkey":` + k + `,"value":` + num(m.Value) + `}}`)
		}
	case posTypes.MsgBeginUnstake:
		return []byte(`{"type":"pos/MsgBeginUnstake","value":{"validator_address":` + addr(m.Address) + `}}`)
	case posTypes.MsgUnjail:
		return []byte(`{"type":"pos/MsgUnjail","value":{"address":` + addr(m.ValidatorAddr) + `}}`)
	case govTypes.MsgChangeParam:
		return []byte(`{"type":"gov/msg_change_param","value":{"address":` + addr(m.FromAddress) + `,"param_key":` + q(m.ParamKey) + `,"param_value":` + bz(m.ParamVal) + `}}`)
	case govTypes.MsgDAOTransfer:
		return []byte(`{"type":"gov/msg_dao_transfer","value":{"action":` + q(m.Action) + `,"amount":` + num(m.Amount) + `,"from_address":` + addr(m.FromAddress) + `,"to_address":` + addr(m.ToAddress) + `}}`)
	case govTypes.MsgUpgrade:
		return []byte(`{"type":"gov/msg_upgrade","value":{"address":` + addr(m.Address) + `,"upgrade":{"Height":` + q(strconv.FormatInt(m.Upgrade.Height, 10)) + `,"Version":` + q(m.Upgrade.Version) + `}}}`)
	}
	return msg.GetSignBytes()
}

// SignTx signs and encodes.
func SignTx(msg sdk.Msg, fee sdk.Coins, memo string, entropy int64, priv crypto.PrivateKey, attachPK bool) []byte {
	sb := CanonicalSignBytes(ChainID, entropy, fee, msg, memo)
	sig, err := priv.Sign(sb)
	if err != nil {
		panic(err)
	}
	ss := authTypes.StdSignature{Signature: sig}
	if attachPK {
		ss.PublicKey = priv.PublicKey()
	}
	tx := authTypes.NewStdTx(msg, fee, ss, memo, entropy)
	bz, err := MakeCodec().MarshalBinaryLengthPrefixed(tx)
	if err != nil {
		panic(err)
	}
	return bz
}
