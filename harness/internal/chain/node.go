package chain

// Fake Tendermint node: the ante handler needs tmNode.Config().RPC.ListenAddress and performs
// an HTTP JSON-RPC "tx" call against it to find out whether the transaction is already in the
// node's tx index. We serve that one method over a unix socket owned by the harness; the index
// follows Tendermint's rule (every tx of a committed block is indexed, nothing earlier).

import (
	"encoding/base64"
	"encoding/json"
	"fmt"
	"io/ioutil"
	"net"
	"net/http"
	"os"
	"path/filepath"
	"reflect"
	"sync"
	"sync/atomic"
	"unsafe"

	amino "github.com/tendermint/go-amino"
	abci "github.com/tendermint/tendermint/abci/types"
	cfg "github.com/tendermint/tendermint/config"
	"github.com/tendermint/tendermint/node"
	ctypes "github.com/tendermint/tendermint/rpc/core/types"
	tmtypes "github.com/tendermint/tendermint/types"
)

var rpcCdc = func() *amino.Codec {
	c := amino.NewCodec()
	ctypes.RegisterAmino(c)
	return c
}()

// TxIndex is the harness-owned tx index.
type TxIndex struct {
	mu      sync.Mutex
	heights map[string]int64
	results map[string]abci.ResponseDeliverTx
	Lookups int64
}

func NewTxIndex() *TxIndex {
	return &TxIndex{heights: map[string]int64{}, results: map[string]abci.ResponseDeliverTx{}}
}

// Add indexes a transaction of a committed block together with its DeliverTx response (Tendermint
// indexes every transaction of a block, whatever its result code).
func (ix *TxIndex) Add(tx []byte, height int64, res abci.ResponseDeliverTx) {
	ix.mu.Lock()
	defer ix.mu.Unlock()
	h := string(tmtypes.Tx(tx).Hash())
	if _, ok := ix.heights[h]; !ok {
		ix.heights[h] = height
		ix.results[h] = res
	}
}

// Restore adds the entries of a Tendermint-side snapshot (keys are tx hashes).
func (ix *TxIndex) Restore(st TMState) {
	ix.mu.Lock()
	defer ix.mu.Unlock()
	for k, v := range st.Indexed {
		if _, ok := ix.heights[k]; !ok {
			ix.heights[k] = v
			ix.results[k] = st.IndexedRes[k]
		}
	}
}

func (ix *TxIndex) Has(tx []byte) bool {
	ix.mu.Lock()
	defer ix.mu.Unlock()
	_, ok := ix.heights[string(tmtypes.Tx(tx).Hash())]
	return ok
}

func (ix *TxIndex) Len() int {
	ix.mu.Lock()
	defer ix.mu.Unlock()
	return len(ix.heights)
}

// FakeNode is a *node.Node whose config points at the harness RPC server.
type FakeNode struct {
	Node  *node.Node
	Index *TxIndex
	ln    net.Listener
	srv   *http.Server
	path  string
}

var sockDir string
var sockSeq int64
var sockOnce sync.Once

// SockRoot is where unix sockets are created; set by main before first use.
var SockRoot = "/verif/.work/sock"

func nextSock() string {
	sockOnce.Do(func() {
		sockDir = filepath.Join(SockRoot, fmt.Sprintf("%d", os.Getpid()))
		os.RemoveAll(sockDir)
		if err := os.MkdirAll(sockDir, 0o755); err != nil {
			panic(err)
		}
	})
	return filepath.Join(sockDir, fmt.Sprintf("%d", atomic.AddInt64(&sockSeq, 1)))
}

// CleanupSockets removes this process's socket directory.
func CleanupSockets() {
	if sockDir != "" {
		os.RemoveAll(sockDir)
	}
}

type rpcReq struct {
	ID     json.RawMessage `json:"id"`
	Method string          `json:"method"`
	Params struct {
		Hash string `json:"hash"`
	} `json:"params"`
}

func NewFakeNode(ix *TxIndex) *FakeNode {
	path := nextSock()
	ln, err := net.Listen("unix", path)
	if err != nil {
		panic(fmt.Sprintf("fake node: listen %s: %v", path, err))
	}
	fn := &FakeNode{Index: ix, ln: ln, path: path}
	mux := http.NewServeMux()
	mux.HandleFunc("/", func(w http.ResponseWriter, r *http.Request) {
		body, _ := ioutil.ReadAll(r.Body)
		var req rpcReq
		_ = json.Unmarshal(body, &req)
		id := req.ID
		if len(id) == 0 {
			id = json.RawMessage(`""`)
		}
		w.Header().Set("Content-Type", "application/json")
		if req.Method != "tx" {
			fmt.Fprintf(w, `{"jsonrpc":"2.0","id":%s,"error":{"code":-32601,"message":"Method not found","data":""}}`, id)
			return
		}
		hash, _ := base64.StdEncoding.DecodeString(req.Params.Hash)
		ix.mu.Lock()
		ix.Lookups++
		h, ok := ix.heights[string(hash)]
		txres := ix.results[string(hash)]
		ix.mu.Unlock()
		if !ok {
			fmt.Fprintf(w, `{"jsonrpc":"2.0","id":%s,"error":{"code":-32603,"message":"Internal error","data":"Tx (%X) not found"}}`, id, hash)
			return
		}
		res := ctypes.ResultTx{Hash: hash, Height: h, TxResult: txres}
		bz, err := rpcCdc.MarshalJSON(res)
		if err != nil {
			panic(err)
		}
		fmt.Fprintf(w, `{"jsonrpc":"2.0","id":%s,"result":%s}`, id, bz)
	})
	fn.srv = &http.Server{Handler: mux}
	fn.srv.SetKeepAlivesEnabled(false)
	go fn.srv.Serve(ln)

	c := cfg.DefaultConfig()
	c.RPC.ListenAddress = "unix://" + path
	n := &node.Node{}
	f := reflect.ValueOf(n).Elem().FieldByName("config")
	reflect.NewAt(f.Type(), unsafe.Pointer(f.UnsafeAddr())).Elem().Set(reflect.ValueOf(c))
	fn.Node = n
	return fn
}

func (fn *FakeNode) Close() {
	fn.srv.Close()
	fn.ln.Close()
	os.Remove(fn.path)
}
