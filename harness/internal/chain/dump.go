package chain

import (
	"bytes"
	"crypto/sha256"
	"fmt"
	"sort"
	"time"

	sdk "github.com/pokt-network/posmint/types"
	authExported "github.com/pokt-network/posmint/x/auth/exported"
	authTypes "github.com/pokt-network/posmint/x/auth/types"
	govTypes "github.com/pokt-network/posmint/x/gov/types"
	posTypes "github.com/pokt-network/posmint/x/pos/types"
)

// KV is one raw store entry.
type KV struct{ K, V []byte }

// Dump is the raw content of every mounted persistent store (working tree, uncommitted included).
type Dump map[string][]KV

func (app *App) storeKey(name string) sdk.StoreKey {
	switch name {
	case "main":
		return app.KeyMain
	case "auth":
		return app.KeyAuth
	case "pos":
		return app.KeyPos
	case "params":
		return sdk.ParamsKey
	}
	panic(name)
}

// RawDump iterates every store's working tree.
func (app *App) RawDump() Dump {
	d := Dump{}
	for _, n := range StoreNames {
		st := app.Store().GetKVStore(app.storeKey(n))
		it := st.Iterator(nil, nil)
		var kvs []KV
		for ; it.Valid(); it.Next() {
			kvs = append(kvs, KV{append([]byte(nil), it.Key()...), append([]byte(nil), it.Value()...)})
		}
		it.Close()
		d[n] = kvs
	}
	return d
}

// Hash returns a digest of the dump.
func (d Dump) Hash() [32]byte {
	h := sha256.New()
	for _, n := range StoreNames {
		fmt.Fprintf(h, "store:%s:%d\n", n, len(d[n]))
		for _, kv := range d[n] {
			fmt.Fprintf(h, "%d:%d:", len(kv.K), len(kv.V))
			h.Write(kv.K)
			h.Write(kv.V)
		}
	}
	var out [32]byte
	copy(out[:], h.Sum(nil))
	return out
}

// Diff lists keys that differ between two dumps (for messages).
func (d Dump) Diff(o Dump) []string {
	var out []string
	for _, n := range StoreNames {
		a, b := map[string][]byte{}, map[string][]byte{}
		for _, kv := range d[n] {
			a[string(kv.K)] = kv.V
		}
		for _, kv := range o[n] {
			b[string(kv.K)] = kv.V
		}
		for k, v := range a {
			if w, ok := b[k]; !ok {
				out = append(out, fmt.Sprintf("%s/%X removed", n, k))
			} else if !bytes.Equal(v, w) {
				out = append(out, fmt.Sprintf("%s/%X changed", n, k))
			}
		}
		for k := range b {
			if _, ok := a[k]; !ok {
				out = append(out, fmt.Sprintf("%s/%X added", n, k))
			}
		}
	}
	sort.Strings(out)
	return out
}

// ValView is the decoded view of one validator record plus its signing info.
type ValView struct {
	Addr       sdk.Address
	Key        int // key index or -1
	Status     sdk.StakeStatus
	Jailed     bool
	Stake      sdk.Int
	UnstakeAt  time.Time
	HasInfo    bool
	Info       posTypes.ValidatorSigningInfo
	MissedBits map[int64]bool // raw entries under 0x12 for this validator
}

// View is the decoded state used by the oracles.
type View struct {
	Balances    map[string]sdk.Int // by address (raw bytes as string), stake denom only
	OtherDenoms bool
	Other       map[string]string // by address: the coins held in other denominations, as text ("" = none)
	AccAddrs    []string
	Supply      sdk.Int
	Vals        []ValView // sorted by address
	PowerIndex  []KV      // raw prefix 0x23
	PrevPowers  map[string]int64
	PrevTotal   []byte
	UnstakeQ    []KV // raw prefix 0x41
	Awards      []KV // raw prefix 0x51
	Burns       []KV // raw prefix 0x52
	Proposer    []byte
	Params      map[string]string // raw params store
	Pool        sdk.Int
	FeePool     sdk.Int
	PosAcc      sdk.Int
	DAO         sdk.Int
	NegBalance  bool
}

func moduleAddr(name string) string { return string(authTypes.NewModuleAddress(name)) }

// ModuleAddr is the address of the module account with that name.
func ModuleAddr(name string) string { return moduleAddr(name) }

var (
	PoolAddr = moduleAddr(posTypes.StakedPoolName)
	FeeAddr  = moduleAddr(authTypes.FeeCollectorName)
	PosAddr  = moduleAddr(posTypes.ModuleName)
	DAOAddr  = moduleAddr(govTypes.DAOAccountName)
)

// Decode builds the View from a raw dump, using only raw iteration + the codec (no keeper logic
// apart from amino decoding of the stored records).
func (app *App) Decode(d Dump) View {
	cdc := app.Cdc
	v := View{Balances: map[string]sdk.Int{}, PrevPowers: map[string]int64{}, Params: map[string]string{}, Supply: sdk.ZeroInt()}
	for _, kv := range d["auth"] {
		switch {
		case len(kv.K) > 0 && kv.K[0] == 0x01:
			var acc authExported.Account
			if err := cdc.UnmarshalBinaryBare(kv.V, &acc); err != nil {
				panic(fmt.Sprintf("undecodable account under %X: %v", kv.K, err))
			}
			amt := acc.GetCoins().AmountOf(Denom)
			if len(acc.GetCoins()) > 1 || (len(acc.GetCoins()) == 1 && acc.GetCoins()[0].Denom != Denom) {
				v.OtherDenoms = true
				var rest sdk.Coins
				for _, c := range acc.GetCoins() {
					if c.Denom != Denom {
						rest = append(rest, c)
					}
				}
				if v.Other == nil {
					v.Other = map[string]string{}
				}
				v.Other[string(kv.K[1:])] = rest.String()
			}
			if acc.GetCoins().IsAnyNegative() {
				v.NegBalance = true
			}
			v.Balances[string(kv.K[1:])] = amt
			v.AccAddrs = append(v.AccAddrs, string(kv.K[1:]))
		case bytes.Equal(kv.K, []byte{0x00}):
			var s authExported.SupplyI
			if err := cdc.UnmarshalBinaryLengthPrefixed(kv.V, &s); err != nil {
				panic(fmt.Sprintf("undecodable supply: %v", err))
			}
			v.Supply = s.GetTotal().AmountOf(Denom)
			if s.GetTotal().IsAnyNegative() {
				v.NegBalance = true
			}
		}
	}
	get := func(a string) sdk.Int {
		if x, ok := v.Balances[a]; ok {
			return x
		}
		return sdk.ZeroInt()
	}
	v.Pool, v.FeePool, v.PosAcc, v.DAO = get(PoolAddr), get(FeeAddr), get(PosAddr), get(DAOAddr)
	infos := map[string]posTypes.ValidatorSigningInfo{}
	bits := map[string]map[int64]bool{}
	for _, kv := range d["pos"] {
		if len(kv.K) == 0 {
			continue
		}
		switch kv.K[0] {
		case 0x01:
			v.Proposer = kv.V
		case 0x11:
			var info posTypes.ValidatorSigningInfo
			cdc.MustUnmarshalBinaryLengthPrefixed(kv.V, &info)
			infos[string(kv.K[1:])] = info
		case 0x12:
			addr := string(kv.K[1 : 1+sdk.AddrLen])
			var idx int64
			for i := 0; i < 8; i++ {
				idx |= int64(kv.K[1+sdk.AddrLen+i]) << (8 * uint(i))
			}
			var missed bool
			cdc.MustUnmarshalBinaryLengthPrefixed(kv.V, &missed)
			if bits[addr] == nil {
				bits[addr] = map[int64]bool{}
			}
			bits[addr][idx] = missed
		case 0x21:
			val := posTypes.MustUnmarshalValidator(cdc, kv.V)
			vv := ValView{Addr: val.Address, Key: KeyIndexByAddr(val.Address, 16), Status: val.Status, Jailed: val.Jailed,
				Stake: val.StakedTokens, UnstakeAt: val.UnstakingCompletionTime}
			if !bytes.Equal(kv.K[1:], val.Address) {
				panic("validator stored under foreign key")
			}
			v.Vals = append(v.Vals, vv)
		case 0x23:
			v.PowerIndex = append(v.PowerIndex, kv)
		case 0x31:
			var p int64
			cdc.MustUnmarshalBinaryLengthPrefixed(kv.V, &p)
			v.PrevPowers[string(kv.K[1:])] = p
		case 0x32:
			v.PrevTotal = kv.V
		case 0x41:
			v.UnstakeQ = append(v.UnstakeQ, kv)
		case 0x51:
			v.Awards = append(v.Awards, kv)
		case 0x52:
			v.Burns = append(v.Burns, kv)
		}
	}
	for i := range v.Vals {
		a := string(v.Vals[i].Addr)
		if info, ok := infos[a]; ok {
			v.Vals[i].HasInfo, v.Vals[i].Info = true, info
		}
		v.Vals[i].MissedBits = bits[a]
	}
	// signing infos / bits of addresses without validator record are kept accessible too
	for a, info := range infos {
		found := false
		for _, vv := range v.Vals {
			if string(vv.Addr) == a {
				found = true
			}
		}
		if !found {
			v.Vals = append(v.Vals, ValView{Addr: sdk.Address(a), Key: KeyIndexByAddr([]byte(a), 16), Status: 255, Stake: sdk.ZeroInt(),
				HasInfo: true, Info: info, MissedBits: bits[a]})
		}
	}
	sort.Slice(v.Vals, func(i, j int) bool { return bytes.Compare(v.Vals[i].Addr, v.Vals[j].Addr) < 0 })
	for _, kv := range d["params"] {
		v.Params[string(kv.K)] = string(kv.V)
	}
	return v
}

// Val returns the view of validator with key index k (nil if no record).
func (v View) Val(k int) *ValView {
	for i := range v.Vals {
		if v.Vals[i].Key == k && v.Vals[i].Status != 255 {
			return &v.Vals[i]
		}
	}
	return nil
}

// Info returns signing info for key k.
func (v View) Info(k int) (posTypes.ValidatorSigningInfo, map[int64]bool, bool) {
	for i := range v.Vals {
		if v.Vals[i].Key == k && v.Vals[i].HasInfo {
			return v.Vals[i].Info, v.Vals[i].MissedBits, true
		}
	}
	return posTypes.ValidatorSigningInfo{}, nil, false
}

func (v View) Bal(k int) sdk.Int {
	if x, ok := v.Balances[string(Addr(k))]; ok {
		return x
	}
	return sdk.ZeroInt()
}

// SumBalances adds every stored account balance.
func (v View) SumBalances() sdk.Int {
	s := sdk.ZeroInt()
	for _, b := range v.Balances {
		s = s.Add(b)
	}
	return s
}
