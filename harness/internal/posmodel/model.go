// Package posmodel is the reference model of the proof-of-stake application, written from the
// property statements (C02, C04-C10), not from the code. It is a one-step transition relation:
// Spec*(before, call) computes the state the statements require after the call from the state the
// implementation had before it; the oracle compares that with the implementation's decoded state.
// Re-anchoring at every step keeps one known defect from poisoning the rest of a history.
// Where the statements are silent the model marks the item "unjudged" and nothing is compared.
package posmodel

import (
	"fmt"
	"math/big"
	"sort"
	"time"

	"verif/internal/chain"
)

const (
	Unstaked  = 0
	Unstaking = 1
	Staked    = 2
)

var DoubleSignJailEnd = time.Unix(253402300799, 0).UTC()

var (
	ten6  = big.NewInt(1000000)
	ten18 = new(big.Int).Exp(big.NewInt(10), big.NewInt(18), nil)
)

// Params of the pos module (decoded from the raw params store).
type Params struct {
	Unstaking    time.Duration
	MaxVals      uint64
	Min          int64
	MaxEvAge     time.Duration
	W            int64
	MinSignedRaw *big.Int // 18-decimal raw fraction
	JailDur      time.Duration
	FDouble      *big.Int // raw 18-decimal
	FDown        *big.Int
}

// MinSigned = round_half_even(MinSignedPerWindow * W).
func (p Params) MinSigned() int64 {
	num := new(big.Int).Mul(p.MinSignedRaw, big.NewInt(p.W))
	q, r := new(big.Int).QuoRem(num, ten18, new(big.Int))
	twice := new(big.Int).Lsh(r, 1)
	switch twice.Cmp(ten18) {
	case 1:
		q.Add(q, big.NewInt(1))
	case 0:
		if q.Bit(0) == 1 {
			q.Add(q, big.NewInt(1))
		}
	}
	return q.Int64()
}

// Val is one validator (record and/or signing info).
type Val struct {
	Addr      string
	Exists    bool // validator record present
	Status    int
	Jailed    bool
	Stake     *big.Int
	UnstakeAt time.Time
	HasInfo   bool
	Start     int64
	Offset    int64
	Counter   int64
	Until     time.Time
	Tomb      bool
	Bits      map[int64]bool
	// unjudged fields (statement silent for the call that just ran)
	UnjudgedStake bool
}

func (v *Val) clone() *Val {
	c := *v
	c.Stake = new(big.Int).Set(v.Stake)
	c.Bits = map[int64]bool{}
	for k, b := range v.Bits {
		c.Bits[k] = b
	}
	return &c
}

// Power = floor(stake / 10^6).
func (v *Val) Power() int64 { return new(big.Int).Quo(v.Stake, ten6).Int64() }

// State is the model state.
type State struct {
	Bal          map[string]*big.Int
	Supply       *big.Int
	Vals         map[string]*Val
	Awards       map[string]*big.Int
	Burns        map[string]*big.Int // raw 18-decimal severities
	PrevProposer string
	HasProposer  bool
	P            Params
	// Other: per address the coins held in other denominations, as text (read-only; the model only
	// needs it to refuse a fee the payer cannot pay)
	Other map[string]string
	// bookkeeping produced by a Spec* call
	Burned     *big.Int // tokens the statements require to be burned by this call
	Minted     *big.Int
	Notes      []string // what happened (for signatures): e.g. "award", "burn:staked", "downtime", "evidence:confirmed"
	MustReturn bool     // the call must return (no panic)
}

func (s *State) Clone() *State {
	c := &State{Bal: map[string]*big.Int{}, Supply: new(big.Int).Set(s.Supply), Vals: map[string]*Val{},
		Awards: map[string]*big.Int{}, Burns: map[string]*big.Int{}, PrevProposer: s.PrevProposer, HasProposer: s.HasProposer, P: s.P, Other: s.Other,
		Burned: new(big.Int), Minted: new(big.Int), MustReturn: true}
	for k, v := range s.Bal {
		c.Bal[k] = new(big.Int).Set(v)
	}
	for k, v := range s.Vals {
		c.Vals[k] = v.clone()
	}
	for k, v := range s.Awards {
		c.Awards[k] = new(big.Int).Set(v)
	}
	for k, v := range s.Burns {
		c.Burns[k] = new(big.Int).Set(v)
	}
	return c
}

func (s *State) bal(a string) *big.Int {
	if b, ok := s.Bal[a]; ok {
		return b
	}
	b := new(big.Int)
	s.Bal[a] = b
	return b
}

func (s *State) note(n string) { s.Notes = append(s.Notes, n) }

func (s *State) sortedKeys(m map[string]*big.Int) []string {
	var ks []string
	for k := range m {
		ks = append(ks, k)
	}
	sort.Strings(ks)
	return ks
}

// ---------------------------------------------------------------------------------------------
// slashing (C07)

// slash removes min(trunc(p*10^6*f), stake); below the minimum => forced unstake, remainder burned.
func (s *State) slash(v *Val, power int64, fRaw *big.Int) {
	if !v.Exists || v.Status == Unstaked {
		return // nothing is burned for unknown or unstaked targets
	}
	amt := new(big.Int).Mul(big.NewInt(power), ten6)
	amt.Mul(amt, fRaw)
	amt.Quo(amt, ten18) // truncation (operands non-negative)
	if amt.Sign() < 0 {
		amt.SetInt64(0)
	}
	if amt.Cmp(v.Stake) > 0 {
		amt.Set(v.Stake)
	}
	if amt.Sign() == 0 {
		// nothing is removed, so the stake does not "fall below the minimum" through this slash (it
		// can already be below it when governance raised the minimum): nothing else happens
		return
	}
	s.burnStake(v, amt)
	if v.Stake.Cmp(big.NewInt(s.P.Min)) < 0 {
		s.forceUnstake(v)
	}
}

func (s *State) burnStake(v *Val, amt *big.Int) {
	v.Stake.Sub(v.Stake, amt)
	s.bal(chain.PoolAddr).Sub(s.bal(chain.PoolAddr), amt)
	s.Supply.Sub(s.Supply, amt)
	s.Burned.Add(s.Burned, amt)
}

func (s *State) forceUnstake(v *Val) {
	s.burnStake(v, new(big.Int).Set(v.Stake))
	v.Status = Unstaked
}

// ---------------------------------------------------------------------------------------------
// BeginBlock

// Vote is one entry of LastCommitInfo.
type Vote struct {
	Addr   string
	Power  int64
	Signed bool
}

// Ev is one duplicate-vote evidence.
type Ev struct {
	Addr   string
	Height int64
	Time   time.Time
	Power  int64
}

// SpecBeginBlock applies what the statements require of BeginBlock.
func (s *State) SpecBeginBlock(height int64, now time.Time, proposer string, votes []Vote, evs []Ev) {
	// C10: fees collected during the previous block go to its proposer (or stay in the pos account)
	if height > 1 {
		fees := new(big.Int).Set(s.bal(chain.FeeAddr))
		s.bal(chain.FeeAddr).SetInt64(0)
		if v, ok := s.Vals[s.PrevProposer]; ok && v.Exists {
			s.bal(s.PrevProposer).Add(s.bal(s.PrevProposer), fees)
			if fees.Sign() > 0 {
				s.note("fees:validator")
			}
		} else {
			s.bal(chain.PosAddr).Add(s.bal(chain.PosAddr), fees)
			if fees.Sign() > 0 {
				s.note("fees:unknown-proposer")
			}
		}
	}
	// C10: every queued award is minted exactly once to its address
	for _, a := range s.sortedKeys(s.Awards) {
		amt := s.Awards[a]
		s.bal(a).Add(s.bal(a), amt)
		s.Supply.Add(s.Supply, amt)
		s.Minted.Add(s.Minted, amt)
		s.note("award")
	}
	s.Awards = map[string]*big.Int{}
	// C07: queued burns
	for _, a := range s.sortedKeys(s.Burns) {
		v, ok := s.Vals[a]
		switch {
		case !ok || !v.Exists:
			s.note("burn:unknown")
			s.MustReturn = false // statement silent: a burn queued for an address without record
		case v.Status == Staked:
			s.note("burn:staked")
			s.slash(v, v.Power(), s.Burns[a])
		case v.Status == Unstaking:
			s.note("burn:unstaking")
			v.UnjudgedStake = true // the power p of a non-staked validator is not defined by the statement
		default:
			s.note("burn:unstaked") // nothing burned
		}
	}
	s.Burns = map[string]*big.Int{}
	s.PrevProposer, s.HasProposer = proposer, true
	// C08: votes
	for _, vt := range votes {
		s.specVote(height, now, vt)
	}
	// C07/C09: evidence
	for _, e := range evs {
		s.specEvidence(height, now, e)
	}
}

func (s *State) specVote(height int64, now time.Time, vt Vote) {
	v, ok := s.Vals[vt.Addr]
	if !ok || !v.HasInfo {
		s.note("vote:no-info")
		s.MustReturn = false
		return
	}
	W := s.P.W
	idx := v.Offset % W
	v.Offset++
	prev := v.Bits[idx]
	missed := !vt.Signed
	switch {
	case !prev && missed:
		v.Bits[idx] = true
		v.Counter++
	case prev && !missed:
		v.Bits[idx] = false
		v.Counter--
	}
	if missed {
		s.note("miss")
	}
	if height > v.Start+W && v.Counter > W-s.P.MinSigned() {
		if v.Exists && !v.Jailed {
			s.note(fmt.Sprintf("downtime:%s", statusName(v.Status)))
			s.slash(v, vt.Power, s.P.FDown)
			v.Jailed = true
			v.Until = now.Add(s.P.JailDur)
			v.Counter, v.Offset = 0, 0
			v.Bits = map[int64]bool{}
		}
	}
}

func statusName(st int) string {
	switch st {
	case Staked:
		return "staked"
	case Unstaking:
		return "unstaking"
	}
	return "unstaked"
}

func (s *State) specEvidence(height int64, now time.Time, e Ev) {
	v, ok := s.Vals[e.Addr]
	switch {
	case !ok || (!v.Exists && !v.HasInfo):
		s.note("evidence:unknown")
		return
	case now.Sub(e.Time) > s.P.MaxEvAge:
		s.note("evidence:too-old")
		return
	case !v.Exists:
		s.note("evidence:removed")
		return
	case v.Status == Unstaked:
		s.note("evidence:unstaked")
		return
	case v.Tomb:
		s.note("evidence:tombstoned")
		return
	}
	s.note("evidence:confirmed:" + statusName(v.Status))
	// confirmed double sign inside the window: the entire remaining stake is burned, permanently jailed
	s.forceUnstake(v)
	v.Jailed = true
	v.Tomb = true
	v.Until = DoubleSignJailEnd
}

// ---------------------------------------------------------------------------------------------
// EndBlock

// SpecEndBlock: every unstaking validator whose completion time <= now is removed and paid out.
func (s *State) SpecEndBlock(now time.Time) {
	var ks []string
	for k := range s.Vals {
		ks = append(ks, k)
	}
	sort.Strings(ks)
	for _, k := range ks {
		v := s.Vals[k]
		if v.Exists && v.Status == Unstaking && !v.UnstakeAt.After(now) {
			s.bal(k).Add(s.bal(k), v.Stake)
			s.bal(chain.PoolAddr).Sub(s.bal(chain.PoolAddr), v.Stake)
			v.Exists = false
			v.Stake = new(big.Int)
			v.Status = Unstaked
			s.note("mature")
		}
	}
}

// ExpectedSet is the validator set the statements require Tendermint to have after this block's
// updates are applied: the MaxValidators highest-powered staked, unjailed validators
// (power desc, address asc), each with floor(stake/10^6).
func (s *State) ExpectedSet() []chain.TMVal {
	var c []*Val
	for _, v := range s.Vals {
		if v.Exists && v.Status == Staked && !v.Jailed && v.Power() > 0 {
			c = append(c, v)
		}
	}
	sort.Slice(c, func(i, j int) bool {
		pi, pj := c[i].Power(), c[j].Power()
		if pi != pj {
			return pi > pj
		}
		return c[i].Addr < c[j].Addr
	})
	if uint64(len(c)) > s.P.MaxVals {
		c = c[:s.P.MaxVals]
	}
	var out []chain.TMVal
	for _, v := range c {
		out = append(out, chain.TMVal{Addr: []byte(v.Addr), Power: v.Power()})
	}
	sort.Slice(out, func(i, j int) bool { return string(out[i].Addr) < string(out[j].Addr) })
	return out
}
