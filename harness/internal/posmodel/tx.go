package posmodel

import (
	"math/big"
	"time"

	sdk "github.com/pokt-network/posmint/types"

	"verif/internal/chain"
)

// TxOutcome is what the statements require of one DeliverTx.
type TxOutcome struct {
	AnteOK   bool   // passes the ante handler (fee is paid)
	OK       bool   // message succeeds
	Unjudged bool   // statements do not decide success (e.g. governance messages: see C17)
	Why      string // reason for the expected rejection
}

// SpecDeliverTx applies a correctly signed, well-formed transaction of the given spec.
// fee is the fee carried by the transaction, reqFee the required one.
func (s *State) SpecDeliverTx(t chain.TxSpec, fee, reqFee int64, now time.Time, height int64) TxOutcome {
	signer := string(chain.Addr(t.From))
	out := TxOutcome{}
	bal, exists := s.Bal[signer]
	switch {
	case fee < reqFee:
		out.Why = "fee below required"
		return out
	case !exists:
		out.Why = "signer account unknown"
		return out
	case bal.Cmp(big.NewInt(fee)) < 0:
		out.Why = "balance below fee"
		return out
	}
	if t.FeeAbc > 0 {
		held, _ := sdk.ParseCoins(s.Other[signer])
		if held.AmountOf("abc").LT(sdk.NewInt(t.FeeAbc)) {
			out.Why = "balance below fee"
			return out
		}
	}
	out.AnteOK = true
	bal.Sub(bal, big.NewInt(fee))
	s.bal(chain.FeeAddr).Add(s.bal(chain.FeeAddr), big.NewInt(fee))
	amt := big.NewInt(t.Amount)
	min := big.NewInt(s.P.Min)
	switch t.Msg {
	case "send", "send_pool", "send_module":
		to := string(chain.Addr(t.To))
		if t.Msg == "send_pool" {
			to = chain.PoolAddr
		}
		if t.Msg == "send_module" {
			to = chain.ModuleAddr(t.Key)
		}
		if t.Amount <= 0 {
			out.Why = "non-positive amount"
			return out
		}
		if bal.Cmp(amt) < 0 {
			out.Why = "overdraft"
			return out
		}
		bal.Sub(bal, amt)
		s.bal(to).Add(s.bal(to), amt)
		out.OK = true
		s.note("send")
	case "stake":
		v := s.Vals[signer]
		switch {
		case v != nil && v.Exists && v.Status != Unstaked:
			out.Why = "already staked or unstaking"
		case t.Amount <= 0:
			out.Why = "non-positive amount"
		case amt.Cmp(min) < 0:
			out.Why = "below minimum stake"
		case bal.Cmp(amt) < 0:
			out.Why = "insufficient funds"
		case t.From >= 100:
			out.Why = "unsupported consensus key type"
		default:
			if v == nil {
				v = &Val{Addr: signer, Stake: new(big.Int), Bits: map[int64]bool{}}
				s.Vals[signer] = v
			}
			if !v.Exists {
				v.Exists, v.Jailed, v.Stake = true, false, new(big.Int)
				s.note("stake:new")
			} else {
				s.note("stake:restake")
			}
			bal.Sub(bal, amt)
			s.bal(chain.PoolAddr).Add(s.bal(chain.PoolAddr), amt)
			v.Stake.Add(v.Stake, amt)
			v.Status = Staked
			if !v.HasInfo {
				v.HasInfo, v.Start, v.Offset, v.Counter, v.Until, v.Tomb = true, height, 0, 0, time.Unix(0, 0).UTC(), false
			}
			out.OK = true
		}
	case "unstake":
		v := s.Vals[signer]
		switch {
		case v == nil || !v.Exists:
			out.Why = "no such validator"
		case v.Status != Staked:
			out.Why = "not staked"
		default:
			v.Status = Unstaking
			v.UnstakeAt = now.Add(s.P.Unstaking)
			out.OK = true
			s.note("unstake")
		}
	case "unjail":
		v := s.Vals[signer]
		switch {
		case v == nil || !v.Exists:
			out.Why = "no such validator"
		case !v.Jailed:
			out.Why = "not jailed"
		case v.Stake.Cmp(min) < 0:
			out.Why = "stake below minimum"
		case v.Tomb:
			out.Why = "tombstoned"
		case now.Before(v.Until):
			out.Why = "still jailed"
		default:
			v.Jailed = false
			out.OK = true
			s.note("unjail:" + statusName(v.Status))
		}
	default:
		out.Unjudged = true
	}
	return out
}
