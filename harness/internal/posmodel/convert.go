package posmodel

import (
	"bytes"
	"fmt"
	"math/big"
	"sort"
	"time"

	sdk "github.com/pokt-network/posmint/types"
	"github.com/tendermint/go-amino"

	"verif/internal/chain"
)

var jsonCdc = chain.MakeCodec()

func mustParam(v chain.View, key string, ptr interface{}) {
	raw, ok := v.Params[key]
	if !ok {
		panic("parameter " + key + " missing from params store")
	}
	if err := jsonCdc.UnmarshalJSON([]byte(raw), ptr); err != nil {
		panic(fmt.Sprintf("parameter %s undecodable: %v", key, err))
	}
}

// ParamsFromView decodes the pos parameters from the raw params store.
func ParamsFromView(v chain.View) Params {
	var p Params
	var ms, fd, fw sdk.Dec
	mustParam(v, "pos/UnstakingTime", &p.Unstaking)
	mustParam(v, "pos/MaxValidators", &p.MaxVals)
	mustParam(v, "pos/StakeMinimum", &p.Min)
	mustParam(v, "pos/MaxEvidenceAge", &p.MaxEvAge)
	mustParam(v, "pos/SignedBlocksWindow", &p.W)
	mustParam(v, "pos/MinSignedPerWindow", &ms)
	mustParam(v, "pos/DowntimeJailDuration", &p.JailDur)
	mustParam(v, "pos/SlashFractionDoubleSign", &fd)
	mustParam(v, "pos/SlashFractionDowntime", &fw)
	p.MinSignedRaw, p.FDouble, p.FDown = new(big.Int).Set(ms.Int), new(big.Int).Set(fd.Int), new(big.Int).Set(fw.Int)
	return p
}

// FromView converts the implementation's decoded state to a model state.
func FromView(v chain.View) *State {
	s := &State{Bal: map[string]*big.Int{}, Supply: v.Supply.BigInt(), Vals: map[string]*Val{}, Awards: map[string]*big.Int{},
		Burns: map[string]*big.Int{}, Burned: new(big.Int), Minted: new(big.Int), MustReturn: true}
	s.P = ParamsFromView(v)
	s.Other = v.Other
	for a, b := range v.Balances {
		s.Bal[a] = b.BigInt()
	}
	for _, vv := range v.Vals {
		m := &Val{Addr: string(vv.Addr), Stake: new(big.Int), Bits: map[int64]bool{}}
		if vv.Status != 255 {
			m.Exists = true
			m.Status = int(vv.Status)
			m.Jailed = vv.Jailed
			m.Stake = vv.Stake.BigInt()
			m.UnstakeAt = vv.UnstakeAt.UTC()
		}
		if vv.HasInfo {
			m.HasInfo = true
			m.Start, m.Offset, m.Counter = vv.Info.StartHeight, vv.Info.IndexOffset, vv.Info.MissedBlocksCounter
			m.Until, m.Tomb = vv.Info.JailedUntil.UTC(), vv.Info.Tombstoned
		}
		for k, b := range vv.MissedBits {
			if b {
				m.Bits[k] = true
			}
		}
		s.Vals[m.Addr] = m
	}
	for _, kv := range v.Awards {
		var amt sdk.Int
		amino.MustUnmarshalBinaryBare(kv.V, &amt)
		s.Awards[string(kv.K[1:])] = amt.BigInt()
	}
	for _, kv := range v.Burns {
		var sev sdk.Dec
		amino.MustUnmarshalBinaryBare(kv.V, &sev)
		s.Burns[string(kv.K[1:])] = new(big.Int).Set(sev.Int)
	}
	if v.Proposer != nil {
		var a sdk.Address
		jsonCdc.MustUnmarshalBinaryLengthPrefixed(v.Proposer, &a)
		s.PrevProposer, s.HasProposer = string(a), true
	}
	return s
}

// Diff is one mismatch between the required and the actual state.
type Diff struct {
	Field string // class: bal:pool bal:fee bal:pos bal:dao bal:acct supply val.stake val.status val.jailed val.exists val.unstakeAt info.counter info.offset info.start info.until info.tomb info.bits awards burns proposer
	Who   string // address hex (short) where applicable
	Want  string
	Got   string
}

func (d Diff) String() string {
	return fmt.Sprintf("%s[%s] want %s got %s", d.Field, d.Who, d.Want, d.Got)
}

func short(a string) string {
	if k := chain.KeyIndexByAddr([]byte(a), 16); k >= 0 {
		return fmt.Sprintf("key%d", k)
	}
	switch a {
	case chain.PoolAddr:
		return "pool"
	case chain.FeeAddr:
		return "feecollector"
	case chain.PosAddr:
		return "pos"
	case chain.DAOAddr:
		return "dao"
	}
	return fmt.Sprintf("%X", a)
}

func balField(a string) string {
	switch a {
	case chain.PoolAddr:
		return "bal:pool"
	case chain.FeeAddr:
		return "bal:fee"
	case chain.PosAddr:
		return "bal:pos"
	case chain.DAOAddr:
		return "bal:dao"
	}
	return "bal:acct"
}

// Compare lists the differences between the required state (want) and the actual one (got).
func Compare(want, got *State) []Diff {
	var ds []Diff
	add := func(f, who, w, g string) { ds = append(ds, Diff{f, who, w, g}) }
	keys := map[string]bool{}
	for k := range want.Bal {
		keys[k] = true
	}
	for k := range got.Bal {
		keys[k] = true
	}
	var ks []string
	for k := range keys {
		ks = append(ks, k)
	}
	sort.Strings(ks)
	zero := new(big.Int)
	for _, k := range ks {
		w, g := want.Bal[k], got.Bal[k]
		if w == nil {
			w = zero
		}
		if g == nil {
			g = zero
		}
		if w.Cmp(g) != 0 {
			add(balField(k), short(k), w.String(), g.String())
		}
	}
	if want.Supply.Cmp(got.Supply) != 0 {
		add("supply", "", want.Supply.String(), got.Supply.String())
	}
	vkeys := map[string]bool{}
	for k := range want.Vals {
		vkeys[k] = true
	}
	for k := range got.Vals {
		vkeys[k] = true
	}
	ks = ks[:0]
	for k := range vkeys {
		ks = append(ks, k)
	}
	sort.Strings(ks)
	empty := &Val{Stake: new(big.Int), Bits: map[int64]bool{}}
	for _, k := range ks {
		w, g := want.Vals[k], got.Vals[k]
		if w == nil {
			w = empty
		}
		if g == nil {
			g = empty
		}
		who := short(k)
		if w.Exists != g.Exists {
			add("val.exists", who, fmt.Sprint(w.Exists), fmt.Sprint(g.Exists))
		}
		if w.Exists && g.Exists {
			if w.Status != g.Status {
				add("val.status", who, statusName(w.Status), statusName(g.Status))
			}
			if w.Jailed != g.Jailed {
				add("val.jailed", who, fmt.Sprint(w.Jailed), fmt.Sprint(g.Jailed))
			}
			if !w.UnjudgedStake && w.Stake.Cmp(g.Stake) != 0 {
				add("val.stake", who, w.Stake.String(), g.Stake.String())
			}
			if w.Status == Unstaking && g.Status == Unstaking && !w.UnstakeAt.Equal(g.UnstakeAt) {
				add("val.unstakeAt", who, w.UnstakeAt.Format(time.RFC3339Nano), g.UnstakeAt.Format(time.RFC3339Nano))
			}
		}
		if w.HasInfo != g.HasInfo {
			add("info.exists", who, fmt.Sprint(w.HasInfo), fmt.Sprint(g.HasInfo))
		}
		if w.HasInfo && g.HasInfo {
			if w.Start != g.Start {
				add("info.start", who, fmt.Sprint(w.Start), fmt.Sprint(g.Start))
			}
			if w.Offset != g.Offset {
				add("info.offset", who, fmt.Sprint(w.Offset), fmt.Sprint(g.Offset))
			}
			if w.Counter != g.Counter {
				add("info.counter", who, fmt.Sprint(w.Counter), fmt.Sprint(g.Counter))
			}
			if !w.Until.Equal(g.Until) {
				add("info.until", who, w.Until.Format(time.RFC3339Nano), g.Until.Format(time.RFC3339Nano))
			}
			if w.Tomb != g.Tomb {
				add("info.tomb", who, fmt.Sprint(w.Tomb), fmt.Sprint(g.Tomb))
			}
			if bitsString(w.Bits) != bitsString(g.Bits) {
				add("info.bits", who, bitsString(w.Bits), bitsString(g.Bits))
			}
		}
	}
	if mapString(want.Awards) != mapString(got.Awards) {
		add("awards", "", mapString(want.Awards), mapString(got.Awards))
	}
	if mapString(want.Burns) != mapString(got.Burns) {
		add("burns", "", mapString(want.Burns), mapString(got.Burns))
	}
	if want.HasProposer != got.HasProposer || want.PrevProposer != got.PrevProposer {
		add("proposer", "", short(want.PrevProposer), short(got.PrevProposer))
	}
	return ds
}

func bitsString(m map[int64]bool) string {
	var ks []int64
	for k, b := range m {
		if b {
			ks = append(ks, k)
		}
	}
	sort.Slice(ks, func(i, j int) bool { return ks[i] < ks[j] })
	return fmt.Sprint(ks)
}

func mapString(m map[string]*big.Int) string {
	var ks []string
	for k := range m {
		ks = append(ks, k)
	}
	sort.Strings(ks)
	var b bytes.Buffer
	for _, k := range ks {
		fmt.Fprintf(&b, "%s=%s,", short(k), m[k])
	}
	return b.String()
}
