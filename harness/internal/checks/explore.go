package checks

// Bounded exhaustive history exploration over the real application, sharded over worker
// subprocesses (the code under test may os.Exit or panic outside any recover).

import (
	"encoding/binary"
	"encoding/hex"
	"encoding/json"
	"fmt"
	"os"
	"os/exec"
	"path/filepath"
	"runtime"
	"sort"
	"strconv"
	"strings"
	"sync"
	"time"

	"verif/internal/chain"
	"verif/internal/ev"
)

// Choice is one non-default block (costs one deviation).
type Choice struct {
	Label string
	Block chain.Block
}

// Scenario is one bounded exploration problem: all histories of exactly D blocks (+Tail default
// blocks) in which at most K blocks deviate from the default block (everybody signs, +1s, same
// proposer, no event), each deviating block drawn from Alphabet.
type Scenario struct {
	Name     string
	Cfg      chain.Config
	Prelude  []chain.Block
	Alphabet []Choice
	K, D     int
	Tail     int
}

func (sc *Scenario) blocks(choices []int) []chain.Block {
	var bs []chain.Block
	for _, c := range choices {
		if c == 0 {
			bs = append(bs, chain.Block{})
		} else {
			bs = append(bs, sc.Alphabet[c-1].Block)
		}
	}
	for i := 0; i < sc.Tail; i++ {
		bs = append(bs, chain.Block{})
	}
	return bs
}

func (sc *Scenario) pretty(choices []int) []string {
	var out []string
	for _, c := range choices {
		if c == 0 {
			out = append(out, "-")
		} else {
			out = append(out, sc.Alphabet[c-1].Label)
		}
	}
	return out
}

// enumerate calls f for every choice vector with exactly j deviations, j = 0..K in order.
func (sc *Scenario) enumerate(f func(choices []int)) {
	A := len(sc.Alphabet)
	cur := make([]int, sc.D)
	var rec func(pos, left int)
	for j := 0; j <= sc.K && j <= sc.D; j++ {
		rec = func(pos, left int) {
			if pos == sc.D {
				if left == 0 {
					f(cur)
				}
				return
			}
			if sc.D-pos < left {
				return
			}
			cur[pos] = 0
			rec(pos+1, left)
			if left > 0 {
				for a := 1; a <= A; a++ {
					cur[pos] = a
					rec(pos+1, left-1)
				}
			}
			cur[pos] = 0
		}
		rec(0, j)
	}
}

// Count returns the number of histories of the scenario.
func (sc *Scenario) Count() int64 {
	n := int64(0)
	A := int64(len(sc.Alphabet))
	for j := 0; j <= sc.K && j <= sc.D; j++ {
		c := int64(1)
		for i := 0; i < j; i++ {
			c = c * int64(sc.D-i) / int64(i+1)
		}
		p := int64(1)
		for i := 0; i < j; i++ {
			p *= A
		}
		n += c * p
	}
	return n
}

// HistProp is a property decided by history exploration.
type HistProp struct {
	ID        string
	Props     []string // properties whose oracles are evaluated (normally just ID)
	Scenarios func(tier string) []Scenario
	Run       func(sc *Scenario, blocks []chain.Block) HistResult // default: RunPosHistory
	Rule      string
	Assume    []string
	QuickS    int // deadline seconds
	ThoroughS int
}

var histProps = map[string]*HistProp{}

func registerHist(p *HistProp) {
	histProps[p.ID] = p
	Registry[p.ID] = func(tier string) int { return exploreMain(p, tier) }
}

type workerFinding struct {
	Sig    string     `json:"sig"`
	What   string     `json:"what"`
	Replay HistReplay `json:"replay"`
	Count  int        `json:"count"`
	Stable bool       `json:"stable"`
}

type workerOut struct {
	Items       int64                     `json:"items"`
	Transitions int64                     `json:"transitions"`
	Hashes      string                    `json:"hashes"` // hex of little-endian uint64s
	Outcomes    map[string]int            `json:"outcomes"`
	Nontrivial  int64                     `json:"nontrivial"`
	Findings    map[string]*workerFinding `json:"findings"`
	Complete    bool                      `json:"complete"`
	LastIdx     int64                     `json:"last_idx"`
	Samples     []HistReplay              `json:"samples"`
}

func (p *HistProp) run(sc *Scenario, blocks []chain.Block) HistResult {
	if p.Run != nil {
		return p.Run(sc, blocks)
	}
	props := p.Props
	if len(props) == 0 {
		props = []string{p.ID}
	}
	return RunPosHistory(sc.Cfg, sc.Prelude, blocks, props...)
}

// exploreWorker: vcheck _worker <prop> <tier> <shard> <nshards> <outfile> <startAfter> <deadlineUnix>
func exploreWorker(args []string) int {
	if len(args) < 7 {
		fmt.Println("bad worker args")
		return 2
	}
	p := histProps[args[0]]
	tier := args[1]
	shard, _ := strconv.Atoi(args[2])
	nshards, _ := strconv.Atoi(args[3])
	outfile := args[4]
	startAfter, _ := strconv.ParseInt(args[5], 10, 64)
	deadlineUnix, _ := strconv.ParseInt(args[6], 10, 64)
	seed, _ := strconv.ParseInt(os.Getenv("VERIF_SEED"), 10, 64)
	if seed < 0 {
		seed = -seed
	}
	out := workerOut{Outcomes: map[string]int{}, Findings: map[string]*workerFinding{}, Complete: true, LastIdx: -1}
	hashes := map[uint64]struct{}{}
	scs := p.Scenarios(tier)
	idx := int64(-1)
	inflight := outfile + ".inflight"
	for si := range scs {
		sc := &scs[si]
		stopped := false
		sc.enumerate(func(choices []int) {
			idx++
			if stopped || (idx+seed)%int64(nshards) != int64(shard) || idx <= startAfter {
				return
			}
			if time.Now().Unix() > deadlineUnix {
				out.Complete = false
				stopped = true
				return
			}
			blocks := sc.blocks(choices)
			rep := HistReplay{Scenario: sc.Name, Cfg: sc.Cfg, Prelude: sc.Prelude, Blocks: blocks, Pretty: sc.pretty(choices)}
			bz, _ := json.Marshal(map[string]interface{}{"idx": idx, "replay": rep})
			os.WriteFile(inflight, bz, 0o644)
			res := p.run(sc, blocks)
			out.Items++
			out.LastIdx = idx
			out.Transitions += int64(res.Transitions)
			for _, h := range res.Hashes {
				hashes[h] = struct{}{}
			}
			if len(out.Outcomes) < 5000 {
				out.Outcomes[res.Outcome]++
			}
			if res.Nontrivial {
				out.Nontrivial++
				if len(out.Samples) < 2 && len(res.Findings) == 0 {
					out.Samples = append(out.Samples, rep)
				}
			}
			for _, f := range res.Findings {
				if f.Prop != p.ID {
					continue
				}
				wf := out.Findings[f.Sig]
				if wf == nil {
					// reproduce before believing: the same history must fail the same way again
					stable := true
					for t := 0; t < 2; t++ {
						again := p.run(sc, blocks)
						found := false
						for _, g := range again.Findings {
							if g.Sig == f.Sig {
								found = true
							}
						}
						if !found {
							stable = false
						}
					}
					wf = &workerFinding{Sig: f.Sig, What: f.What, Replay: rep, Stable: stable}
					out.Findings[f.Sig] = wf
				}
				wf.Count++
			}
		})
		if stopped {
			break
		}
	}
	buf := make([]byte, 0, len(hashes)*8)
	var tmp [8]byte
	for h := range hashes {
		binary.LittleEndian.PutUint64(tmp[:], h)
		buf = append(buf, tmp[:]...)
	}
	out.Hashes = hex.EncodeToString(buf)
	bz, _ := json.Marshal(out)
	if err := os.WriteFile(outfile, bz, 0o644); err != nil {
		fmt.Println("worker: cannot write", outfile, err)
		return 2
	}
	os.Remove(inflight)
	return 0
}

func nWorkers() int {
	n := runtime.NumCPU()
	if s := os.Getenv("VERIF_WORKERS"); s != "" {
		if v, err := strconv.Atoi(s); err == nil && v > 0 {
			n = v
		}
	}
	if n > 16 {
		n = 16
	}
	return n
}

func exploreMain(p *HistProp, tier string) int {
	run := ev.NewRun(p.ID, tier, "model_checking")
	scs := p.Scenarios(tier)
	total := int64(0)
	var scDesc []map[string]interface{}
	for i := range scs {
		c := scs[i].Count()
		total += c
		scDesc = append(scDesc, map[string]interface{}{"name": scs[i].Name, "alphabet": len(scs[i].Alphabet), "K": scs[i].K, "D": scs[i].D, "tail": scs[i].Tail, "prelude": len(scs[i].Prelude), "histories": c})
	}
	secs := p.QuickS
	if tier == "thorough" {
		secs = p.ThoroughS
	}
	if secs == 0 {
		secs = 300
	}
	if s := os.Getenv("VERIF_DEADLINE_S"); s != "" {
		if v, err := strconv.Atoi(s); err == nil {
			secs = v
		}
	}
	deadline := time.Now().Add(time.Duration(secs) * time.Second).Unix()
	n := nWorkers()
	dir := filepath.Join(ev.Root, ".work", fmt.Sprintf("explore-%s-%d", p.ID, os.Getpid()))
	os.MkdirAll(dir, 0o755)
	defer os.RemoveAll(dir)
	self := os.Getenv("VCHECK_BIN")
	if self == "" {
		self, _ = os.Executable()
	}
	type shardRes struct {
		outs  []workerOut
		died  []workerFinding
		fatal string
	}
	results := make([]shardRes, n)
	var wg sync.WaitGroup
	for sh := 0; sh < n; sh++ {
		wg.Add(1)
		go func(sh int) {
			defer wg.Done()
			startAfter := int64(-1)
			for attempt := 0; attempt < 40; attempt++ {
				outfile := filepath.Join(dir, fmt.Sprintf("out-%d-%d.json", sh, attempt))
				cmd := exec.Command(self, "_worker", p.ID, tier, strconv.Itoa(sh), strconv.Itoa(n), outfile, strconv.FormatInt(startAfter, 10), strconv.FormatInt(deadline, 10))
				cmd.Env = append(os.Environ(), "GOMAXPROCS=2")
				logf, _ := os.Create(outfile + ".log")
				cmd.Stdout, cmd.Stderr = logf, logf
				err := cmd.Run()
				logf.Close()
				bz, rerr := os.ReadFile(outfile)
				if err == nil && rerr == nil {
					var wo workerOut
					if json.Unmarshal(bz, &wo) == nil {
						results[sh].outs = append(results[sh].outs, wo)
						return
					}
				}
				// the worker died: the in-flight history is a counterexample to process liveness
				ib, ierr := os.ReadFile(outfile + ".inflight")
				if ierr != nil {
					lb, _ := os.ReadFile(outfile + ".log")
					results[sh].fatal = fmt.Sprintf("worker %d failed without in-flight record: %v; log tail: %.500s", sh, err, tail(string(lb), 500))
					return
				}
				var inf struct {
					Idx    int64      `json:"idx"`
					Replay HistReplay `json:"replay"`
				}
				json.Unmarshal(ib, &inf)
				lb, _ := os.ReadFile(outfile + ".log")
				results[sh].died = append(results[sh].died, workerFinding{
					Sig:    p.ID + "|process-died|" + deathClass(string(lb), inf.Replay),
					What:   fmt.Sprintf("the application process exited (%v) while executing this history; output head: %.1200s ... tail: %.400s", err, string(lb), tail(string(lb), 400)),
					Replay: inf.Replay, Count: 1, Stable: true})
				startAfter = inf.Idx
			}
			results[sh].fatal = fmt.Sprintf("worker %d died too often", sh)
		}(sh)
	}
	wg.Wait()
	// merge
	hashes := map[uint64]struct{}{}
	outcomes := map[string]int{}
	var items, trans, nontriv int64
	complete := true
	merged := map[string]*workerFinding{}
	var samples []interface{}
	for sh := range results {
		if results[sh].fatal != "" {
			fmt.Fprintln(os.Stderr, "EXPLORER-ERROR:", results[sh].fatal)
			run.Set("explorer_error", results[sh].fatal)
			complete = false
		}
		for _, wo := range results[sh].outs {
			items += wo.Items
			trans += wo.Transitions
			nontriv += wo.Nontrivial
			if !wo.Complete {
				complete = false
			}
			hb, _ := hex.DecodeString(wo.Hashes)
			for i := 0; i+8 <= len(hb); i += 8 {
				hashes[binary.LittleEndian.Uint64(hb[i:])] = struct{}{}
			}
			for k, v := range wo.Outcomes {
				outcomes[k] += v
			}
			for k, f := range wo.Findings {
				if m := merged[k]; m == nil {
					merged[k] = f
				} else {
					m.Count += f.Count
					m.Stable = m.Stable && f.Stable
				}
			}
			for _, s := range wo.Samples {
				if len(samples) < 3 {
					samples = append(samples, map[string]interface{}{"scenario": s.Scenario, "history": s.Pretty})
				}
			}
		}
		for i := range results[sh].died {
			f := results[sh].died[i]
			if m := merged[f.Sig]; m == nil {
				merged[f.Sig] = &f
			} else {
				m.Count++
			}
		}
	}
	var sigs []string
	for k := range merged {
		sigs = append(sigs, k)
	}
	sort.Strings(sigs)
	for _, k := range sigs {
		f := merged[k]
		if !f.Stable {
			// a failure that does not reproduce on the same history: application nondeterminism or harness bug
			run.Report(k+"|UNSTABLE", "non-reproducible: "+f.What, f.Replay)
			continue
		}
		run.ReportN(k, f.What, f.Replay, f.Count)
	}
	run.Set("states", int64(len(hashes)))
	run.Set("transitions", trans)
	run.Set("evaluations", items)
	run.Set("histories_total", total)
	run.Set("traces_validated_against_impl", items)
	run.Set("distinct_nontrivial", nontriv)
	run.Set("distinct_outcomes", int64(len(outcomes)))
	run.Set("scenarios", scDesc)
	run.Set("workers", n)
	run.Set("exhaustive", complete && items == total)
	if !(complete && items == total) {
		run.Set("cap_hit", fmt.Sprintf("deadline of %ds reached after %d of %d histories (enumerated in order of increasing deviations)", secs, items, total))
	}
	run.Set("rule", p.Rule)
	for _, s := range samples {
		run.Sample(s)
	}
	if len(samples) == 0 {
		for i := range scs {
			run.Sample(map[string]interface{}{"scenario": scs[i].Name, "alphabet": labels(scs[i].Alphabet)})
			break
		}
	}
	run.Assume(p.Assume...)
	run.Assume("states = distinct (full store dump, height, time, pending validator sets) hashes observed after every ABCI call; transitions = ABCI calls executed under the oracle; every history is executed on the real application (traces_validated_against_impl = histories)",
		"harness wiring (internal/chain) and the reference model (internal/posmodel) are trusted")
	return run.Finish()
}

func labels(cs []Choice) []string {
	var out []string
	for _, c := range cs {
		out = append(out, c.Label)
	}
	return out
}

func tail(s string, n int) string {
	if len(s) > n {
		return s[len(s)-n:]
	}
	return s
}

// deathClass names the cause of a worker death: the first panic / fatal error line with volatile
// parts (hex, digits) removed; falls back to the last deviating block of the history.
func deathClass(log string, r HistReplay) string {
	for _, ln := range strings.Split(log, "\n") {
		if strings.HasPrefix(ln, "panic:") || strings.HasPrefix(ln, "fatal error:") {
			var b strings.Builder
			for _, w := range strings.Fields(ln) {
				if len(w) > 12 || strings.ContainsAny(w, "0123456789") && len(w) > 3 {
					break
				}
				if b.Len() > 0 {
					b.WriteByte('-')
				}
				b.WriteString(w)
				if b.Len() > 48 {
					break
				}
			}
			return b.String()
		}
	}
	return lastDeviation(r)
}

func lastDeviation(r HistReplay) string {
	last := "none"
	for _, p := range r.Pretty {
		if p != "-" {
			last = p
		}
	}
	return strings.ReplaceAll(last, " ", "_")
}

// replayHist re-executes a replay file of a history property.
func replayHist(p *HistProp, path string) int {
	bz, err := os.ReadFile(path)
	if err != nil {
		fmt.Println(err)
		return 2
	}
	var f struct {
		Signature string     `json:"signature"`
		Replay    HistReplay `json:"replay"`
	}
	if err := json.Unmarshal(bz, &f); err != nil {
		fmt.Println(err)
		return 2
	}
	sc := &Scenario{Name: f.Replay.Scenario, Cfg: f.Replay.Cfg, Prelude: f.Replay.Prelude}
	res := p.run(sc, f.Replay.Blocks)
	fmt.Printf("replay of %s (%d blocks): %d findings\n", path, len(f.Replay.Blocks), len(res.Findings))
	for i, b := range f.Replay.Blocks {
		fmt.Printf("  block %d: %s\n", i+1, b)
	}
	code := 0
	for _, fd := range res.Findings {
		if fd.Prop == p.ID {
			fmt.Printf("VIOLATION property=%s replay=%s\n  signature: %s\n  what: %s\n", p.ID, path, fd.Sig, fd.What)
			code = 1
		}
	}
	if res.Died != "" {
		fmt.Println("  died:", res.Died)
	}
	return code
}
