package checks

import (
	"fmt"
	"strings"
	"sync"

	"verif/internal/ev"
)

// classify a C15 failure into a signature: the operation kind that failed + a coarse cause.
func c15sig(f c15fail) string {
	w := f.What
	kind := "other"
	switch {
	case strings.HasPrefix(w, "final: parent"):
		kind = "parent-content"
	case strings.HasPrefix(w, "final:"):
		kind = "final-view"
	case strings.Contains(w, "panicked"):
		kind = "panic"
	case strings.Contains(w, "open iterator"):
		kind = "open-iterator"
	case strings.HasPrefix(w, "iter"):
		kind = "iteration"
	case strings.HasPrefix(w, "get"), strings.HasPrefix(w, "has"):
		kind = "read"
	}
	return "C15|seq|" + f.Parent + "|" + kind
}

// C15 runs the sequential program exploration (and, when built, the schedule exploration).
func C15(tier string) int {
	run := ev.NewRun("C15", tier, "model_checking")
	alpha := c15alphabet(tier)
	type job struct {
		parent string
		L      int
	}
	jobs := []job{{"memdb", 4}, {"iavl", 3}, {"prefix", 3}}
	if tier == "thorough" {
		jobs = []job{{"memdb", 5}, {"iavl", 4}, {"prefix", 4}}
	}
	var mu sync.Mutex
	var programs, ops int64
	var desc []string
	for _, j := range jobs {
		np, no := exploreC15(j.parent, alpha, j.L, func(f c15fail) {
			mu.Lock()
			defer mu.Unlock()
			run.Report(c15sig(f), fmt.Sprintf("parent=%s program=%v: %s", f.Parent, f.Program, f.What), f)
		})
		programs += np
		ops += no
		desc = append(desc, fmt.Sprintf("%s:L=%d:%d programs", j.parent, j.L, np))
	}
	var names []string
	for _, o := range alpha {
		names = append(names, o.String())
	}
	run.Set("programs", programs)
	run.Set("evaluations", programs)
	run.Set("states", programs) // hidden wrapper state is not observable: every program end is counted as one state, no merging
	run.Set("transitions", ops)
	run.Set("traces_validated_against_impl", programs)
	run.Set("distinct_nontrivial", programs)
	run.Set("alphabet", names)
	run.Set("jobs", desc)
	run.Set("rule", "every contract-respecting program of exactly L operations over the alphabet (every prefix is checked while it runs), on a stack of up to 3 nested cachekv wrappers over {MemDB adapter, IAVL store, prefix store} preloaded with a,b; each program is executed on the real stores and on an overlay-of-maps model; every return value, every iteration sequence, the parent content and the final view of every level are compared")
	run.Sample(map[string]interface{}{"parent": "memdb", "program": []string{"set(\"a\\x00\",\"x\")", "open[0](\"\",\"\",asc)", "del(\"a\")", "close[0]"}})
	run.Assume("usage contracts: only the innermost wrapper is used while it has a child; Write/CacheWrap/discard are not issued while one of the wrapper's iterators is open; buffers passed to Set are not reused by the caller (tm-db contract)",
		"open iterators with interleaved writes are judged by a weak-consistency oracle (sorted, no duplicates, in domain, values the key had during the iterator's life, nothing skipped that was present throughout)",
		"no state merging: cachekv's cache/unsortedCache/sortedCache are hidden state")
	return run.Finish()
}

func init() { Registry["C15"] = C15 }
