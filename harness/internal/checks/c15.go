package checks

import (
	"encoding/json"
	"fmt"
	"os"
	"os/exec"
	"path/filepath"
	"strconv"
	"strings"
	"sync"

	"verif/internal/ev"
)

// classify a C15 failure into a signature: the operation kind that failed + a coarse cause.
func c15sig(f c15fail) string {
	w := f.What
	kind := "other"
	switch {
	case strings.HasPrefix(w, "final: parent"):
		kind = "parent-content"
	case strings.HasPrefix(w, "final:"):
		kind = "final-view"
	case strings.Contains(w, "panicked"):
		kind = "panic"
	case strings.Contains(w, "open iterator"):
		kind = "open-iterator"
	case strings.HasPrefix(w, "iter"):
		kind = "iteration"
	case strings.HasPrefix(w, "get"), strings.HasPrefix(w, "has"):
		kind = "read"
	}
	return "C15|seq|" + f.Parent + "|" + kind
}

// C15 runs the sequential program exploration (and, when built, the schedule exploration).
func C15(tier string) int {
	run := ev.NewRun("C15", tier, "model_checking")
	alpha := c15alphabet(tier)
	type job struct {
		parent string
		L      int
	}
	jobs := []job{{"memdb", 4}, {"iavl", 3}, {"prefix", 3}}
	if tier == "thorough" {
		jobs = []job{{"memdb", 5}, {"iavl", 4}, {"prefix", 4}}
	}
	var mu sync.Mutex
	var programs, ops, prefixes, nontrivial int64
	var desc []string
	for _, j := range jobs {
		np, no, nn, nt := exploreC15(j.parent, alpha, j.L, func(f c15fail) {
			mu.Lock()
			defer mu.Unlock()
			run.Report(c15sig(f), fmt.Sprintf("parent=%s program=%v: %s", f.Parent, f.Program, f.What), f)
		})
		programs += np
		prefixes += nn
		nontrivial += nt
		ops += no
		desc = append(desc, fmt.Sprintf("%s:L=%d:%d programs", j.parent, j.L, np))
	}
	// ---- cache multistore: the programs lifted to two substores with one Write ----
	ml := 4
	if tier == "thorough" {
		ml = 5
	}
	mprogs := exploreC15multi(ml, func(prog []string, what string) {
		mu.Lock()
		defer mu.Unlock()
		run.Report("C15|multi|"+strings.Fields(what)[0], fmt.Sprintf("cachemulti program %v: %s", prog, what), map[string]interface{}{"program": prog})
	})
	programs += mprogs
	prefixes += mprogs
	ops += mprogs * int64(ml)
	desc = append(desc, fmt.Sprintf("cachemulti(2 substores, nesting<=3):L=%d:%d programs", ml, mprogs))
	// ---- foreign writes between a wrapper's reads and its Write ----
	fprogs, fcoll := exploreC15foreign(func(p c15foreignProg, what string) {
		mu.Lock()
		defer mu.Unlock()
		kind := "parent-content"
		if !strings.HasPrefix(what, "final: parent holds") {
			kind = strings.Fields(what)[0]
		}
		run.Report("C15|foreign-write|"+kind, fmt.Sprintf("program %s: %s", p, what), p)
	})
	programs += fprogs
	prefixes += fprogs
	ops += fprogs * 6
	desc = append(desc, fmt.Sprintf("foreign writes between reads and Write: %d programs (%d in which a key the wrapper had read is changed in the parent)", fprogs, fcoll))
	var names []string
	for _, o := range alpha {
		names = append(names, o.String())
	}
	// ---- concurrent part: exhaustive schedule exploration on the instrumented wrapper ----
	schedExec, schedPoints, schedOutcomes := int64(0), int64(0), 0
	var schedDesc []map[string]interface{}
	bound := 2
	if tier == "thorough" {
		bound = 3
	}
	if bin := os.Getenv("VSCHED_BIN"); bin != "" {
		nsc := 18
		if outb, err := exec.Command(bin, "count", "x").Output(); err == nil {
			if v, e := strconv.Atoi(strings.TrimSpace(string(outb))); e == nil {
				nsc = v
			}
		}
		dir := filepath.Join(ev.Root, ".work", fmt.Sprintf("sched-%d", os.Getpid()))
		os.MkdirAll(dir, 0o755)
		defer os.RemoveAll(dir)
		type so struct {
			Scenarios []struct {
				Name       string `json:"name"`
				Executions int64  `json:"executions"`
				Points     int64  `json:"points"`
				Outcomes   int    `json:"distinct_outcomes"`
				Bound      int    `json:"preemption_bound_completed"`
			} `json:"scenarios"`
			Violations []struct {
				Scenario    string `json:"scenario"`
				Kind        string `json:"kind"`
				Schedule    []int  `json:"schedule"`
				History     string `json:"history"`
				Preemptions int    `json:"preemptions"`
			} `json:"violations"`
			Executions int64 `json:"executions"`
		}
		var wg sync.WaitGroup
		sem := make(chan struct{}, 16)
		for i := 0; i < nsc; i++ {
			wg.Add(1)
			sem <- struct{}{}
			go func(i int) {
				defer wg.Done()
				defer func() { <-sem }()
				of := filepath.Join(dir, fmt.Sprintf("s%d.json", i))
				cmd := exec.Command(bin, "explore", of, strconv.Itoa(bound), strconv.Itoa(i))
				cmd.Env = append(os.Environ(), "GOMAXPROCS=1")
				outb, err := cmd.CombinedOutput()
				bz, rerr := os.ReadFile(of)
				mu.Lock()
				defer mu.Unlock()
				if rerr != nil {
					run.Report("C15|sched|explorer-failed", fmt.Sprintf("schedule explorer for scenario %d failed: %v: %.300s", i, err, outb), nil)
					return
				}
				var o so
				json.Unmarshal(bz, &o)
				for _, sc := range o.Scenarios {
					schedExec += sc.Executions
					schedPoints += sc.Points
					schedOutcomes += sc.Outcomes
					schedDesc = append(schedDesc, map[string]interface{}{"scenario": sc.Name, "executions": sc.Executions, "distinct_outcomes": sc.Outcomes, "preemption_bound": sc.Bound})
				}
				for _, v := range o.Violations {
					kind := v.Kind
					if strings.HasPrefix(kind, "error:") {
						kind = "error"
					}
					run.Report("C15|sched|"+strings.Fields(kind)[0]+"|"+strings.Split(v.Scenario, "/")[0], fmt.Sprintf("scenario %s, schedule %v (%d preemptions): %s; history: %s", v.Scenario, v.Schedule, v.Preemptions, v.Kind, v.History), v)
				}
			}(i)
		}
		wg.Wait()
		// free-running -race pass over the same bodies (race DETECTION, not exploration)
		if rbin := os.Getenv("VSCHED_RACE_BIN"); rbin != "" {
			iters := "300"
			if tier == "thorough" {
				iters = "3000"
			}
			outb, err := exec.Command(rbin, "race", iters).CombinedOutput()
			if err != nil || strings.Contains(string(outb), "DATA RACE") {
				run.Report("C15|race-detector", fmt.Sprintf("free-running -race run of the concurrent bodies reported: %v %.600s", err, outb), nil)
			}
			run.Set("race_detector_pass", "ran "+iters+" iterations of every scenario body on real goroutines under -race")
		}
	} else {
		run.Set("sched_skipped", "VSCHED_BIN not set (run through ./vrun)")
	}
	run.Set("evaluations", programs+schedExec)
	run.Set("distinct_nontrivial", nontrivial+int64(schedOutcomes))
	run.Set("states", prefixes+int64(schedOutcomes))
	run.Set("transitions", ops+schedPoints)
	run.Set("traces_validated_against_impl", programs+schedExec)
	run.Set("programs", programs)
	run.Set("sched_executions", schedExec)
	run.Set("sched_points", schedPoints)
	run.Set("sched_distinct_outcomes", schedOutcomes)
	run.Set("sched_scenarios", schedDesc)
	run.Set("sched_preemption_bound", bound)
	run.Set("alphabet", names)
	run.Set("jobs", desc)
	run.Set("rule", "every contract-respecting program of exactly L operations over the alphabet (every prefix is checked while it runs), on a stack of up to 3 nested cachekv wrappers over {MemDB adapter, IAVL store, prefix store} preloaded with a,b; each program is executed on the real stores and on an overlay-of-maps model; every return value, every iteration sequence, the parent content and the final view of every level are compared. evaluations = programs + schedules executed (all on the real stores); states = enabled program prefixes (no state merging: a state is the operation history reaching it) + cachemulti programs + distinct observed outcomes of the schedule exploration; transitions = operations executed under the oracle + scheduling points; distinct_nontrivial = sequential programs that observe (get/has/iterate) after mutating (set/delete), all distinct by construction, + distinct schedule outcomes")
	run.Sample(map[string]interface{}{"parent": "memdb", "program": []string{"set(\"a\\x00\",\"x\")", "open[0](\"\",\"\",asc)", "del(\"a\")", "close[0]"}})
	run.Assume("concurrent part: store/cachekv/store.go of the working tree is instrumented at check time (sync -> controlled scheduler shim, a yield before every statement of every Store method); every interleaving of 24 scenarios (2-3 goroutines x 1-2 operations on colliding keys, parent preloaded/empty) with at most the stated number of preemptions is executed; each history is checked for linearizability against a map (porcupine), parent untouched before Write, Write applying the final view, no deadlock; the first 40 schedules of every scenario are replayed and must observe the same history; data-race freedom is decided by a separate free-running -race pass (detection, not exploration)",
		"usage contracts: only the innermost wrapper is used while it has a child; Write/CacheWrap/discard are not issued while one of the wrapper's iterators is open; buffers passed to Set are not reused by the caller (tm-db contract); the parent is written from elsewhere only while the single wrapper's cache is empty (directly after its creation or its Write: a wrapper caches what it reads)",
		"open iterators with interleaved writes are judged by a weak-consistency oracle (sorted, no duplicates, in domain, values the key had during the iterator's life, nothing skipped that was present throughout)",
		"no state merging: cachekv's cache/unsortedCache/sortedCache are hidden state")
	return run.Finish()
}

func init() { Registry["C15"] = C15 }
