package checks

// C15 (foreign writes): "After Write the parent holds exactly the overlaid view" - the parent's
// content overlaid with the wrapper's own sets and deletes. What a wrapper merely read is not its
// own: when the parent is changed from elsewhere (directly, or by a sibling wrapper that is
// written first) between a wrapper's reads and its Write, the Write must leave those keys as the
// parent has them. Reads through the wrapper after the foreign write are not judged (it caches what
// it read); the parent's content after Write, and reads through the then clean wrapper, are.
//
// Program shape (every combination is executed): initial parent content x reads through the wrapper
// x own operations x foreign operations (direct / through a sibling wrapper) x own operations x
// Write, with the parent being a plain store or itself a wrapper (whose own parent must stay
// unchanged).

import (
	"bytes"
	"fmt"

	"github.com/pokt-network/posmint/store/cachekv"
	"github.com/pokt-network/posmint/store/dbadapter"
	stypes "github.com/pokt-network/posmint/store/types"
	dbm "github.com/tendermint/tm-db"
)

type c15foreignProg struct {
	Init    [2]int // per key: 0 absent, 1 present ("p")
	Reads   int    // bit 0: get a, bit 1: get b, bit 2: has a, bit 3: full iteration
	Own1    [2]int // per key: 0 none, 1 set "x", 2 delete
	Foreign [2]int // per key: 0 none, 1 set "f", 2 delete
	Sibling bool   // the foreign writes go through a sibling wrapper that is written
	Own2    [2]int // per key: 0 none, 1 set "y", 2 delete
	Nested  bool   // the parent is itself a cachekv wrapper
}

func (p c15foreignProg) String() string {
	return fmt.Sprintf("init=%v reads=%04b own-before=%v foreign=%v(sibling=%v) own-after=%v nested-parent=%v", p.Init, p.Reads, p.Own1, p.Foreign, p.Sibling, p.Own2, p.Nested)
}

func runC15foreign(p c15foreignProg) (fail string) {
	defer func() {
		if r := recover(); r != nil {
			fail = fmt.Sprintf("panic: %v", r)
		}
	}()
	keys := [][]byte{kA, kB}
	base := dbadapter.Store{DB: dbm.NewMemDB()}
	model := kvMap{}
	for i, k := range keys {
		if p.Init[i] == 1 {
			base.Set(k, []byte("p"))
			model[string(k)] = []byte("p")
		}
	}
	baseBefore := model.clone()
	var parent stypes.KVStore = base
	if p.Nested {
		parent = cachekv.NewStore(base)
	}
	w := cachekv.NewStore(parent)
	if p.Reads&1 != 0 {
		w.Get(kA)
	}
	if p.Reads&2 != 0 {
		w.Get(kB)
	}
	if p.Reads&4 != 0 {
		w.Has(kA)
	}
	if p.Reads&8 != 0 {
		drain(w.Iterator(nil, nil), 16)
	}
	own := map[string][]byte{}
	ownSet := map[string]bool{}
	doOwn := func(ops [2]int, val string) {
		for i, k := range keys {
			switch ops[i] {
			case 1:
				w.Set(k, []byte(val))
				own[string(k)], ownSet[string(k)] = []byte(val), true
			case 2:
				w.Delete(k)
				own[string(k)], ownSet[string(k)] = nil, true
			}
		}
	}
	doOwn(p.Own1, "x")
	var target stypes.KVStore = parent
	var sib *cachekv.Store
	if p.Sibling {
		sib = cachekv.NewStore(parent)
		target = sib
	}
	for i, k := range keys {
		switch p.Foreign[i] {
		case 1:
			target.Set(k, []byte("f"))
			model[string(k)] = []byte("f")
		case 2:
			target.Delete(k)
			delete(model, string(k))
		}
	}
	if sib != nil {
		sib.Write()
	}
	doOwn(p.Own2, "y")
	w.Write()
	for k := range ownSet {
		if own[k] == nil {
			delete(model, k)
		} else {
			model[k] = own[k]
		}
	}
	want := model.iterate(nil, nil, true)
	if got := dumpStore(parent); !pairsEqual(got, want) {
		return fmt.Sprintf("final: parent holds [%s] after Write, its content overlaid with the wrapper's own sets and deletes is [%s]", pairsString(got), pairsString(want))
	}
	for _, k := range keys {
		got, wv := w.Get(k), model[string(k)]
		if !bytes.Equal(got, wv) || (got == nil) != (wv == nil) {
			return fmt.Sprintf("get(%q) through the written (clean) wrapper = %q, parent holds %q", k, got, wv)
		}
	}
	if p.Nested {
		if got, want := dumpStore(base), baseBefore.iterate(nil, nil, true); !pairsEqual(got, want) {
			return fmt.Sprintf("final: the parent's own parent holds [%s], it was never written to and held [%s]", pairsString(got), pairsString(want))
		}
	}
	return ""
}

// exploreC15foreign runs every program of the shape; returns programs run and those in which a
// foreign write changed a key the wrapper had read.
func exploreC15foreign(onFail func(p c15foreignProg, what string)) (programs, colliding int64) {
	three := [][2]int{}
	for a := 0; a < 3; a++ {
		for b := 0; b < 3; b++ {
			three = append(three, [2]int{a, b})
		}
	}
	for ia := 0; ia < 2; ia++ {
		for ib := 0; ib < 2; ib++ {
			for reads := 0; reads < 16; reads++ {
				for _, o1 := range three {
					for _, f := range three {
						if f == [2]int{0, 0} {
							continue
						}
						for _, sib := range []bool{false, true} {
							for _, o2 := range three {
								for _, nested := range []bool{false, true} {
									p := c15foreignProg{Init: [2]int{ia, ib}, Reads: reads, Own1: o1, Foreign: f, Sibling: sib, Own2: o2, Nested: nested}
									programs++
									if (f[0] != 0 && reads&(1|4|8) != 0) || (f[1] != 0 && reads&(2|8) != 0) {
										colliding++
									}
									if what := runC15foreign(p); what != "" {
										onFail(p, what)
									}
								}
							}
						}
					}
				}
			}
		}
	}
	return
}
