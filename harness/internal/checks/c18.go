package checks

// C18 — Integer, decimal and coin arithmetic is exact and overflow-safe.
// Exhaustive enumeration of all ordered pairs of a boundary operand alphabet for every binary
// operation (and all unary ones), against math/big as an independent oracle.

import (
	"fmt"
	"math"
	"math/big"
	"sort"
	"strings"

	sdk "github.com/pokt-network/posmint/types"

	"verif/internal/ev"
)

var (
	bigOne = big.NewInt(1)
	ten18  = new(big.Int).Exp(big.NewInt(10), big.NewInt(18), nil)
	ten6   = new(big.Int).Exp(big.NewInt(10), big.NewInt(6), nil)
	half18 = new(big.Int).Quo(ten18, big.NewInt(2))
)

func pow(b, e int64) *big.Int { return new(big.Int).Exp(big.NewInt(b), big.NewInt(e), nil) }

// try runs f and reports whether it panicked.
func try(f func()) (panicked bool, msg string) {
	defer func() {
		if r := recover(); r != nil {
			panicked = true
			msg = fmt.Sprint(r)
		}
	}()
	f()
	return
}

// intAlphabet: boundary operands for Int (all within ±(2^255-1)), plus raw out-of-range values
// for constructor/decoder checks.
func intAlphabet() []*big.Int {
	var xs []*big.Int
	add := func(v *big.Int) {
		xs = append(xs, new(big.Int).Set(v), new(big.Int).Neg(v))
	}
	add(big.NewInt(0))
	add(big.NewInt(1))
	add(big.NewInt(2))
	add(big.NewInt(3))
	for _, k := range []int64{6, 17, 18, 19, 36} {
		p := pow(10, k)
		add(p)
		add(new(big.Int).Add(p, bigOne))
		add(new(big.Int).Sub(p, bigOne))
	}
	for _, k := range []int64{63, 64, 127, 128, 254, 255} {
		p := pow(2, k)
		add(new(big.Int).Sub(p, bigOne))
		if k < 255 {
			add(p)
			add(new(big.Int).Add(p, bigOne))
		}
	}
	add(new(big.Int).Sub(pow(2, 255), big.NewInt(2)))
	// dedupe
	seen := map[string]bool{}
	var out []*big.Int
	for _, x := range xs {
		if !seen[x.String()] {
			seen[x.String()] = true
			out = append(out, x)
		}
	}
	sort.Slice(out, func(i, j int) bool { return out[i].Cmp(out[j]) < 0 })
	return out
}

func inIntRange(x *big.Int) bool { return x.BitLen() <= 255 }
func inDecRange(x *big.Int) bool { return x.BitLen() <= 315 }

// decAlphabet: raw 18-decimal fixed point values.
func decAlphabet() []*big.Int {
	var xs []*big.Int
	add := func(v *big.Int) { xs = append(xs, new(big.Int).Set(v), new(big.Int).Neg(v)) }
	for _, x := range intAlphabet() {
		if x.Sign() >= 0 && x.BitLen() <= 200 {
			add(x)
		}
	}
	// integer parts: small, around the int64 bounds (the Int64 conversions), large
	qs := []*big.Int{big.NewInt(0), big.NewInt(1), big.NewInt(2), big.NewInt(3), ten18, pow(2, 200),
		new(big.Int).Sub(pow(2, 63), big.NewInt(2)), new(big.Int).Sub(pow(2, 63), bigOne), pow(2, 63), new(big.Int).Add(pow(2, 63), bigOne), pow(10, 19), pow(2, 64)}
	rs := []*big.Int{big.NewInt(0), big.NewInt(1), new(big.Int).Sub(half18, bigOne), half18, new(big.Int).Add(half18, bigOne), new(big.Int).Sub(ten18, bigOne)}
	for _, q := range qs {
		for _, r := range rs {
			add(new(big.Int).Add(new(big.Int).Mul(q, ten18), r))
		}
	}
	// values near the Dec overflow bound (315 bits)
	add(new(big.Int).Sub(pow(2, 315), bigOne))
	add(pow(2, 314))
	add(pow(2, 157))
	add(pow(2, 158))
	seen := map[string]bool{}
	var out []*big.Int
	for _, x := range xs {
		if !seen[x.String()] {
			seen[x.String()] = true
			out = append(out, x)
		}
	}
	sort.Slice(out, func(i, j int) bool { return out[i].Cmp(out[j]) < 0 })
	return out
}

// roundings of a rational num/den to an integer.
func ratTrunc(num, den *big.Int) *big.Int { return new(big.Int).Quo(num, den) } // toward zero
func ratFloor(num, den *big.Int) *big.Int {
	q, m := new(big.Int).DivMod(num, den, new(big.Int)) // Euclidean: m >= 0
	if den.Sign() < 0 && m.Sign() != 0 {
		// DivMod with negative den: q*den + m = num, 0<=m<|den| ; floor = q if den>0; for den<0 adjust
		// floor(num/den): compute via sign normalisation instead
		n2, d2 := new(big.Int).Neg(num), new(big.Int).Neg(den)
		return ratFloor(n2, d2)
	}
	return q
}
func ratCeil(num, den *big.Int) *big.Int {
	f := ratFloor(num, den)
	// exact?
	if new(big.Int).Mul(f, den).Cmp(num) == 0 {
		return f
	}
	return f.Add(f, bigOne)
}
func ratHalfEven(num, den *big.Int) *big.Int {
	if den.Sign() < 0 {
		num, den = new(big.Int).Neg(num), new(big.Int).Neg(den)
	}
	f := ratFloor(num, den)
	rem := new(big.Int).Sub(num, new(big.Int).Mul(f, den)) // 0 <= rem < den
	twice := new(big.Int).Lsh(rem, 1)
	switch twice.Cmp(den) {
	case -1:
		return f
	case 1:
		return f.Add(f, bigOne)
	}
	if f.Bit(0) == 0 {
		return f
	}
	return f.Add(f, bigOne)
}

type c18 struct {
	r     *ev.Run
	eval  int64
	kinds map[string]bool
}

func (c *c18) fail(sig, what string, replay interface{}) { c.r.Report(sig, what, replay) }

func mkInt(x *big.Int) sdk.Int { return sdk.NewIntFromBigInt(new(big.Int).Set(x)) }
func mkDec(x *big.Int) sdk.Dec { return sdk.NewDecFromBigIntWithPrec(new(big.Int).Set(x), 18) }

// expectInt compares an Int-valued operation with the exact result; out of range <=> panic.
func (c *c18) expectInt(op string, a, b *big.Int, exact *big.Int, inRange func(*big.Int) bool, f func() *big.Int) {
	c.eval++
	var got *big.Int
	p, msg := try(func() { got = f() })
	rep := map[string]string{"op": op, "a": a.String(), "b": ""}
	if b != nil {
		rep["b"] = b.String()
	}
	if !inRange(exact) {
		c.kinds[op+"/overflow"] = true
		if !p {
			c.fail("C18/"+op+"/no-panic-on-overflow", fmt.Sprintf("%s(%s,%v) = %v: exact result %s is outside the representable range but no panic", op, a, rep["b"], got, exact), rep)
		}
		return
	}
	c.kinds[op+"/ok"] = true
	if p {
		c.fail("C18/"+op+"/spurious-panic", fmt.Sprintf("%s(%s,%v) panicked (%s) but exact result %s is representable", op, a, rep["b"], msg, exact), rep)
		return
	}
	if got.Cmp(exact) != 0 {
		c.fail("C18/"+op+"/wrong-result", fmt.Sprintf("%s(%s,%v) = %s, exact %s", op, a, rep["b"], got, exact), rep)
	}
}

// expectQuo is expectInt for the rounded quotients, with one refinement of the violation
// signature: a result that is off by one unit in the last place exactly because the quotient was
// first truncated at 36 decimals and then rounded (double rounding) gets its own signature, so
// that this specific, explainable deviation can be listed as a known finding without hiding any
// other wrong quotient.
func (c *c18) expectQuo(op string, a, b, exact *big.Int, round func(num, den *big.Int) *big.Int, f func() *big.Int) {
	if !inDecRange(exact) {
		c.expectInt(op, a, b, exact, inDecRange, f)
		return
	}
	c.eval++
	c.kinds[op+"/ok"] = true
	var got *big.Int
	p, msg := try(func() { got = f() })
	rep := map[string]string{"op": op, "a": a.String(), "b": b.String()}
	if p {
		c.fail("C18/"+op+"/spurious-panic", fmt.Sprintf("%s(%s,%s) panicked (%s) but exact result %s is representable", op, a, b, msg, exact), rep)
		return
	}
	if got.Cmp(exact) == 0 {
		return
	}
	ten36 := new(big.Int).Mul(ten18, ten18)
	q36 := new(big.Int).Quo(new(big.Int).Mul(a, ten36), b) // truncated at 36 decimals
	twoStep := round(q36, ten18)
	diff := new(big.Int).Abs(new(big.Int).Sub(got, exact))
	if got.Cmp(twoStep) == 0 && diff.Cmp(bigOne) == 0 {
		c.fail("C18/"+op+"/double-rounding-after-36-digit-truncation", fmt.Sprintf("%s(raw %s, raw %s) = raw %s, exactly rounded quotient is raw %s (off by one ulp: quotient truncated at 36 decimals before rounding)", op, a, b, got, exact), rep)
		return
	}
	c.fail("C18/"+op+"/wrong-result", fmt.Sprintf("%s(raw %s, raw %s) = raw %s, exact raw %s", op, a, b, got, exact), rep)
}

func (c *c18) expectBool(op string, a, b fmt.Stringer, want bool, f func() bool) {
	c.eval++
	var got bool
	p, msg := try(func() { got = f() })
	rep := map[string]string{"op": op, "a": a.String(), "b": b.String()}
	if p {
		c.fail("C18/"+op+"/panic", fmt.Sprintf("%s(%s,%s) panicked: %s", op, a, b, msg), rep)
		return
	}
	if got != want {
		c.fail("C18/"+op+"/wrong-result", fmt.Sprintf("%s(%s,%s) = %v, want %v", op, a, b, got, want), rep)
	}
}

func (c *c18) ints() {
	A := intAlphabet()
	c.r.Set("int_alphabet", len(A))
	for _, a := range A {
		for _, b := range A {
			ia, ib := mkInt(a), mkInt(b)
			sa, sb := a.String(), b.String()
			c.expectInt("Int.Add", a, b, new(big.Int).Add(a, b), inIntRange, func() *big.Int { return ia.Add(ib).BigInt() })
			c.expectInt("Int.Sub", a, b, new(big.Int).Sub(a, b), inIntRange, func() *big.Int { return ia.Sub(ib).BigInt() })
			c.expectInt("Int.Mul", a, b, new(big.Int).Mul(a, b), inIntRange, func() *big.Int { return ia.Mul(ib).BigInt() })
			if b.Sign() != 0 {
				c.expectInt("Int.Quo", a, b, new(big.Int).Quo(a, b), inIntRange, func() *big.Int { return ia.Quo(ib).BigInt() })
				if a.Sign() >= 0 && b.Sign() > 0 {
					c.expectInt("Int.Mod", a, b, new(big.Int).Mod(a, b), inIntRange, func() *big.Int { return ia.Mod(ib).BigInt() })
				}
			} else {
				c.eval++
				if p, _ := try(func() { ia.Quo(ib) }); !p {
					c.fail("C18/Int.Quo/div-by-zero-no-panic", "Int.Quo by zero did not panic", map[string]string{"a": sa})
				}
			}
			c.expectBool("Int.Equal", ia, ib, a.Cmp(b) == 0, func() bool { return ia.Equal(ib) })
			c.expectBool("Int.GT", ia, ib, a.Cmp(b) > 0, func() bool { return ia.GT(ib) })
			c.expectBool("Int.GTE", ia, ib, a.Cmp(b) >= 0, func() bool { return ia.GTE(ib) })
			c.expectBool("Int.LT", ia, ib, a.Cmp(b) < 0, func() bool { return ia.LT(ib) })
			c.expectBool("Int.LTE", ia, ib, a.Cmp(b) <= 0, func() bool { return ia.LTE(ib) })
			mn, mx := a, b
			if a.Cmp(b) > 0 {
				mn, mx = b, a
			}
			c.expectInt("MinInt", a, b, mn, inIntRange, func() *big.Int { return sdk.MinInt(ia, ib).BigInt() })
			c.expectInt("MaxInt", a, b, mx, inIntRange, func() *big.Int { return sdk.MaxInt(ia, ib).BigInt() })
			// operands unchanged
			if ia.BigInt().String() != sa || ib.BigInt().String() != sb {
				c.fail("C18/Int/operand-mutated", fmt.Sprintf("operand changed after operations on (%s,%s): now (%s,%s)", sa, sb, ia, ib), map[string]string{"a": sa, "b": sb})
			}
		}
	}
	// the int64-argument variants, over every int64 of the alphabet plus the int64 bounds
	var raws []int64
	seenRaw := map[int64]bool{}
	for _, x := range append(append([]*big.Int{}, A...), big.NewInt(math.MinInt64), big.NewInt(math.MinInt64+1), big.NewInt(math.MaxInt64), big.NewInt(math.MaxInt64-1)) {
		if x.IsInt64() && !seenRaw[x.Int64()] {
			seenRaw[x.Int64()] = true
			raws = append(raws, x.Int64())
		}
	}
	c.r.Set("int64_alphabet", len(raws))
	for _, a := range A {
		for _, r := range raws {
			ia, b := mkInt(a), big.NewInt(r)
			c.expectInt("Int.AddRaw", a, b, new(big.Int).Add(a, b), inIntRange, func() *big.Int { return ia.AddRaw(r).BigInt() })
			c.expectInt("Int.SubRaw", a, b, new(big.Int).Sub(a, b), inIntRange, func() *big.Int { return ia.SubRaw(r).BigInt() })
			c.expectInt("Int.MulRaw", a, b, new(big.Int).Mul(a, b), inIntRange, func() *big.Int { return ia.MulRaw(r).BigInt() })
			if r != 0 {
				c.expectInt("Int.QuoRaw", a, b, new(big.Int).Quo(a, b), inIntRange, func() *big.Int { return ia.QuoRaw(r).BigInt() })
				if a.Sign() >= 0 && r > 0 {
					c.expectInt("Int.ModRaw", a, b, new(big.Int).Mod(a, b), inIntRange, func() *big.Int { return ia.ModRaw(r).BigInt() })
				}
			}
			if ia.BigInt().Cmp(a) != 0 {
				c.fail("C18/Int/operand-mutated", fmt.Sprintf("operand %s changed by a Raw operation with %d", a, r), map[string]string{"a": a.String(), "b": b.String()})
			}
		}
	}
	// unary + conversions + codec round trips
	for _, a := range A {
		ia := mkInt(a)
		c.expectInt("Int.Neg", a, nil, new(big.Int).Neg(a), inIntRange, func() *big.Int { return ia.Neg().BigInt() })
		c.expectInt("Int.ToDec", a, nil, new(big.Int).Mul(a, ten18), inDecRange, func() *big.Int { return new(big.Int).Set(ia.ToDec().Int) })
		c.eval++
		if (ia.Sign() != a.Sign()) || ia.IsZero() != (a.Sign() == 0) || ia.IsNegative() != (a.Sign() < 0) || ia.IsPositive() != (a.Sign() > 0) {
			c.fail("C18/Int/sign", "sign predicates wrong for "+a.String(), a.String())
		}
		c.eval++
		var i64 int64
		p, _ := try(func() { i64 = ia.Int64() })
		if a.IsInt64() != ia.IsInt64() || p == a.IsInt64() || (!p && i64 != a.Int64()) {
			c.fail("C18/Int.Int64", fmt.Sprintf("Int64 conversion of %s: panicked=%v value=%d", a, p, i64), a.String())
		}
		// string / JSON / amino text round trips
		c.eval++
		if back, ok := sdk.NewIntFromString(ia.String()); !ok || back.BigInt().Cmp(a) != 0 {
			c.fail("C18/Int/string-roundtrip", "NewIntFromString(String()) != identity for "+a.String(), a.String())
		}
		if a.Sign() >= 0 {
			q := new(big.Int).Quo(a, ten6)
			c.eval++
			var pw int64
			p, _ := try(func() { pw = sdk.TokensToConsensusPower(ia) })
			if q.IsInt64() {
				if p || pw != q.Int64() {
					c.fail("C18/TokensToConsensusPower/wrong", fmt.Sprintf("TokensToConsensusPower(%s) = %d (panic=%v), want %s", a, pw, p, q), a.String())
				}
			} else if !p {
				c.fail("C18/TokensToConsensusPower/wrap", fmt.Sprintf("TokensToConsensusPower(%s) = %d: quotient %s does not fit int64 but no panic", a, pw, q), a.String())
			}
		}
		if a.IsInt64() {
			c.expectInt("TokensFromConsensusPower", a, nil, new(big.Int).Mul(a, ten6), inIntRange, func() *big.Int { return sdk.TokensFromConsensusPower(a.Int64()).BigInt() })
		}
	}
	// out-of-range constructors and decoders
	for _, x := range []*big.Int{pow(2, 255), new(big.Int).Neg(pow(2, 255)), new(big.Int).Add(pow(2, 255), bigOne), pow(2, 256), pow(2, 300)} {
		c.eval += 2
		if p, _ := try(func() { sdk.NewIntFromBigInt(new(big.Int).Set(x)) }); !p {
			c.fail("C18/NewIntFromBigInt/accepts-out-of-range", "NewIntFromBigInt accepted "+x.String(), x.String())
		}
		if _, ok := sdk.NewIntFromString(x.String()); ok {
			c.fail("C18/NewIntFromString/accepts-out-of-range", "NewIntFromString accepted "+x.String(), x.String())
		}
	}
}

func uintAlphabet() []*big.Int {
	var out []*big.Int
	for _, x := range intAlphabet() {
		if x.Sign() >= 0 {
			out = append(out, x)
		}
	}
	out = append(out, pow(2, 255), new(big.Int).Add(pow(2, 255), bigOne), new(big.Int).Sub(pow(2, 256), bigOne), new(big.Int).Sub(pow(2, 256), big.NewInt(2)))
	return out
}

func inUintRange(x *big.Int) bool { return x.Sign() >= 0 && x.BitLen() <= 256 }

func (c *c18) uints() {
	A := uintAlphabet()
	c.r.Set("uint_alphabet", len(A))
	mk := func(x *big.Int) sdk.Uint { return sdk.NewUintFromBigInt(new(big.Int).Set(x)) }
	val := func(u sdk.Uint) *big.Int { b, _ := new(big.Int).SetString(u.String(), 10); return b }
	for _, a := range A {
		for _, b := range A {
			ua, ub := mk(a), mk(b)
			c.expectInt("Uint.Add", a, b, new(big.Int).Add(a, b), inUintRange, func() *big.Int { return val(ua.Add(ub)) })
			c.expectInt("Uint.Sub", a, b, new(big.Int).Sub(a, b), inUintRange, func() *big.Int { return val(ua.Sub(ub)) })
			c.expectInt("Uint.Mul", a, b, new(big.Int).Mul(a, b), inUintRange, func() *big.Int { return val(ua.Mul(ub)) })
			if b.Sign() != 0 {
				c.expectInt("Uint.Quo", a, b, new(big.Int).Quo(a, b), inUintRange, func() *big.Int { return val(ua.Quo(ub)) })
			}
			c.expectBool("Uint.Equal", ua, ub, a.Cmp(b) == 0, func() bool { return ua.Equal(ub) })
			c.expectBool("Uint.GT", ua, ub, a.Cmp(b) > 0, func() bool { return ua.GT(ub) })
			c.expectBool("Uint.GTE", ua, ub, a.Cmp(b) >= 0, func() bool { return ua.GTE(ub) })
			c.expectBool("Uint.LT", ua, ub, a.Cmp(b) < 0, func() bool { return ua.LT(ub) })
			c.expectBool("Uint.LTE", ua, ub, a.Cmp(b) <= 0, func() bool { return ua.LTE(ub) })
			mn, mx := a, b
			if a.Cmp(b) > 0 {
				mn, mx = b, a
			}
			c.expectInt("MinUint", a, b, mn, inUintRange, func() *big.Int { return val(sdk.MinUint(ua, ub)) })
			c.expectInt("MaxUint", a, b, mx, inUintRange, func() *big.Int { return val(sdk.MaxUint(ua, ub)) })
			if val(ua).Cmp(a) != 0 || val(ub).Cmp(b) != 0 {
				c.fail("C18/Uint/operand-mutated", "Uint operand changed", map[string]string{"a": a.String(), "b": b.String()})
			}
		}
		for _, r := range []uint64{0, 1, 2, 10, 1000000, math.MaxUint64 - 1, math.MaxUint64} {
			ua, b := mk(a), new(big.Int).SetUint64(r)
			c.expectInt("Uint.AddUint64", a, b, new(big.Int).Add(a, b), inUintRange, func() *big.Int { return val(ua.AddUint64(r)) })
			c.expectInt("Uint.SubUint64", a, b, new(big.Int).Sub(a, b), inUintRange, func() *big.Int { return val(ua.SubUint64(r)) })
			c.expectInt("Uint.MulUint64", a, b, new(big.Int).Mul(a, b), inUintRange, func() *big.Int { return val(ua.MulUint64(r)) })
			if r != 0 {
				c.expectInt("Uint.QuoUint64", a, b, new(big.Int).Quo(a, b), inUintRange, func() *big.Int { return val(ua.QuoUint64(r)) })
			}
		}
		ua := mk(a)
		c.eval++
		var u64 uint64
		p, _ := try(func() { u64 = ua.Uint64() })
		if p == a.IsUint64() || (!p && u64 != a.Uint64()) {
			c.fail("C18/Uint.Uint64", "Uint64 conversion wrong for "+a.String(), a.String())
		}
	}
	for _, x := range []*big.Int{pow(2, 256), new(big.Int).Add(pow(2, 256), bigOne), big.NewInt(-1)} {
		c.eval++
		if p, _ := try(func() { sdk.NewUintFromBigInt(new(big.Int).Set(x)) }); !p {
			c.fail("C18/NewUintFromBigInt/accepts-out-of-range", "NewUintFromBigInt accepted "+x.String(), x.String())
		}
	}
}

func (c *c18) decs(tier string) {
	A := decAlphabet()
	c.r.Set("dec_alphabet", len(A))
	raw := func(d sdk.Dec) *big.Int { return new(big.Int).Set(d.Int) }
	for _, a := range A {
		for _, b := range A {
			da, db := mkDec(a), mkDec(b)
			c.expectInt("Dec.Add", a, b, new(big.Int).Add(a, b), inDecRange, func() *big.Int { return raw(da.Add(db)) })
			c.expectInt("Dec.Sub", a, b, new(big.Int).Sub(a, b), inDecRange, func() *big.Int { return raw(da.Sub(db)) })
			prod := new(big.Int).Mul(a, b)
			c.expectInt("Dec.Mul", a, b, ratHalfEven(prod, ten18), inDecRange, func() *big.Int { return raw(da.Mul(db)) })
			c.expectInt("Dec.MulTruncate", a, b, ratTrunc(prod, ten18), inDecRange, func() *big.Int { return raw(da.MulTruncate(db)) })
			if b.Sign() != 0 {
				num := new(big.Int).Mul(a, ten18)
				c.expectQuo("Dec.Quo", a, b, ratHalfEven(num, b), ratHalfEven, func() *big.Int { return raw(da.Quo(db)) })
				c.expectInt("Dec.QuoTruncate", a, b, ratTrunc(num, b), inDecRange, func() *big.Int { return raw(da.QuoTruncate(db)) })
				c.expectQuo("Dec.QuoRoundUp", a, b, ratCeil(num, b), ratCeil, func() *big.Int { return raw(da.QuoRoundUp(db)) })
			}
			c.expectBool("Dec.Equal", da, db, a.Cmp(b) == 0, func() bool { return da.Equal(db) })
			c.expectBool("Dec.GT", da, db, a.Cmp(b) > 0, func() bool { return da.GT(db) })
			c.expectBool("Dec.GTE", da, db, a.Cmp(b) >= 0, func() bool { return da.GTE(db) })
			c.expectBool("Dec.LT", da, db, a.Cmp(b) < 0, func() bool { return da.LT(db) })
			c.expectBool("Dec.LTE", da, db, a.Cmp(b) <= 0, func() bool { return da.LTE(db) })
			mn, mx := a, b
			if a.Cmp(b) > 0 {
				mn, mx = b, a
			}
			c.expectInt("MinDec", a, b, mn, inDecRange, func() *big.Int { return raw(sdk.MinDec(da, db)) })
			c.expectInt("MaxDec", a, b, mx, inDecRange, func() *big.Int { return raw(sdk.MaxDec(da, db)) })
			if da.Int.Cmp(a) != 0 || db.Int.Cmp(b) != 0 {
				c.fail("C18/Dec/operand-mutated", fmt.Sprintf("Dec operand changed after operations on raw (%s,%s)", a, b), map[string]string{"a": a.String(), "b": b.String()})
				return
			}
		}
	}
	// Dec x Int
	I := intAlphabet()
	for _, a := range A {
		da := mkDec(a)
		for _, i := range I {
			ii := mkInt(i)
			c.expectInt("Dec.MulInt", a, i, new(big.Int).Mul(a, i), inDecRange, func() *big.Int { return raw(da.MulInt(ii)) })
			if i.IsInt64() {
				c.expectInt("Dec.MulInt64", a, i, new(big.Int).Mul(a, i), inDecRange, func() *big.Int { return raw(da.MulInt64(i.Int64())) })
			}
			if i.Sign() != 0 {
				// rounding mode of QuoInt is not stated: any correctly rounded value (|err| < 1ulp) is accepted
				c.eval++
				var got *big.Int
				p, msg := try(func() { got = raw(da.QuoInt(ii)) })
				lo, hi := ratFloor(a, i), ratCeil(a, i)
				if p {
					c.fail("C18/Dec.QuoInt/panic", "Dec.QuoInt panicked: "+msg, map[string]string{"a": a.String(), "i": i.String()})
				} else if got.Cmp(lo) < 0 || got.Cmp(hi) > 0 {
					c.fail("C18/Dec.QuoInt/wrong-result", fmt.Sprintf("Dec.QuoInt(raw %s, %s) = raw %s, not within [%s,%s]", a, i, got, lo, hi), map[string]string{"a": a.String(), "i": i.String()})
				}
			}
			if da.Int.Cmp(a) != 0 || ii.BigInt().Cmp(i) != 0 {
				c.fail("C18/Dec/operand-mutated", "operand changed after Dec x Int operations", map[string]string{"a": a.String(), "i": i.String()})
				return
			}
		}
	}
	// unary
	for _, a := range A {
		da := mkDec(a)
		c.expectInt("Dec.Neg", a, nil, new(big.Int).Neg(a), inDecRange, func() *big.Int { return raw(da.Neg()) })
		c.expectInt("Dec.Abs", a, nil, new(big.Int).Abs(a), inDecRange, func() *big.Int { return raw(da.Abs()) })
		c.expectInt("Dec.RoundInt", a, nil, ratHalfEven(a, ten18), inIntRange, func() *big.Int { return da.RoundInt().BigInt() })
		c.expectInt("Dec.TruncateInt", a, nil, ratTrunc(a, ten18), inIntRange, func() *big.Int { return da.TruncateInt().BigInt() })
		c.expectInt("Dec.TruncateDec", a, nil, new(big.Int).Mul(ratTrunc(a, ten18), ten18), inDecRange, func() *big.Int { return raw(da.TruncateDec()) })
		c.expectInt("Dec.Ceil", a, nil, new(big.Int).Mul(ratCeil(a, ten18), ten18), inDecRange, func() *big.Int { return raw(da.Ceil()) })
		is64 := func(x *big.Int) bool { return x.IsInt64() }
		c.expectInt("Dec.RoundInt64", a, nil, ratHalfEven(a, ten18), is64, func() *big.Int { return big.NewInt(da.RoundInt64()) })
		c.expectInt("Dec.TruncateInt64", a, nil, ratTrunc(a, ten18), is64, func() *big.Int { return big.NewInt(da.TruncateInt64()) })
		c.eval++
		if da.IsInteger() != (new(big.Int).Rem(a, ten18).Sign() == 0) {
			c.fail("C18/Dec.IsInteger", "IsInteger wrong for raw "+a.String(), a.String())
		}
		c.eval++
		if back, err := sdk.NewDecFromStr(da.String()); err != nil || back.Int.Cmp(a) != 0 {
			c.fail("C18/Dec/string-roundtrip", "NewDecFromStr(String()) != identity for raw "+a.String(), a.String())
		}
		if da.Int.Cmp(a) != 0 {
			c.fail("C18/Dec/operand-mutated", "Dec operand changed by a unary operation, raw "+a.String(), a.String())
			return
		}
	}
}

// ---- coins ----

var coinDenoms = []string{"aaa", "bbb", "ccc"}

type coinSet [3]int64 // amount per denom; 0 = absent

func (s coinSet) coins() sdk.Coins {
	var cs sdk.Coins
	for i, a := range s {
		if a != 0 {
			cs = append(cs, sdk.NewInt64Coin(coinDenoms[i], a))
		}
	}
	return cs
}

func (s coinSet) String() string { return fmt.Sprint([3]int64(s)) }

func coinsToSet(cs sdk.Coins) (coinSet, bool) {
	var s coinSet
	last := ""
	for _, c := range cs {
		idx := -1
		for i, d := range coinDenoms {
			if d == c.Denom {
				idx = i
			}
		}
		if idx < 0 || c.Denom <= last || !c.Amount.IsInt64() || c.Amount.IsZero() {
			return s, false // not canonical
		}
		last = c.Denom
		s[idx] = c.Amount.Int64()
	}
	return s, true
}

// newCoinsWithZeros: NewCoins is documented to drop zero-amount coins and return the canonical set
// of the others; every list of up to 4 coins over 4 sorted denominations and amounts {0,0,3}
// (so that runs of adjacent zero coins occur in every position).
func (c *c18) newCoinsWithZeros() {
	denoms := []string{"aaa", "bbb", "ccc", "ddd"}
	amts := []int64{-9, 0, 3} // -9 = denomination absent from the list
	var rec func(i int, cur []int64)
	rec = func(i int, cur []int64) {
		if i == len(denoms) {
			var in []sdk.Coin
			var want []string
			for j, a := range cur {
				if a == -9 {
					continue
				}
				in = append(in, sdk.NewInt64Coin(denoms[j], a))
				if a > 0 {
					want = append(want, fmt.Sprintf("%d%s", a, denoms[j]))
				}
			}
			c.eval++
			var got sdk.Coins
			rep := map[string]string{"op": "NewCoins", "a": fmt.Sprint(in), "b": ""}
			if p, msg := try(func() { got = sdk.NewCoins(in...) }); p {
				c.fail("C18/NewCoins/panic-on-zero-amounts", fmt.Sprintf("NewCoins(%v) panicked: %s (zero-amount coins are to be dropped)", in, msg), rep)
				return
			}
			if got.String() != strings.Join(want, ",") || (len(got) > 0 && !got.IsValid()) {
				c.fail("C18/NewCoins/not-canonical", fmt.Sprintf("NewCoins(%v) = %q, want %q", in, got.String(), strings.Join(want, ",")), rep)
			}
			return
		}
		for _, a := range amts {
			rec(i+1, append(cur, a))
		}
	}
	rec(0, nil)
}

// decCoins: the decimal coin sets obey the same rules: every pair of sets over four denominations
// with amounts {absent, 0.5, 2} (so that the denominations of the two operands interleave in every
// way): Add is the per-denomination sum in canonical form, Sub / SafeSub its inverse.
func (c *c18) decCoins() {
	denoms := []string{"aaa", "bbb", "ccc", "ddd"}
	amts := []int64{0, 5, 20} // tenths
	type dset [4]int64
	var sets []dset
	for _, w := range amts {
		for _, x := range amts {
			for _, y := range amts {
				for _, z := range amts {
					sets = append(sets, dset{w, x, y, z})
				}
			}
		}
	}
	mk := func(s dset) sdk.DecCoins {
		var cs sdk.DecCoins
		for i, a := range s {
			if a != 0 {
				cs = append(cs, sdk.NewDecCoinFromDec(denoms[i], sdk.NewDecWithPrec(a, 1)))
			}
		}
		return cs
	}
	same := func(got sdk.DecCoins, want dset) bool {
		n := 0
		for i, a := range want {
			if a != 0 {
				n++
			}
			if !got.AmountOf(denoms[i]).Equal(sdk.NewDecWithPrec(a, 1)) {
				return false
			}
		}
		if len(got) != n {
			return false // duplicates or zero entries
		}
		for i := 1; i < len(got); i++ {
			if got[i-1].Denom >= got[i].Denom {
				return false
			}
		}
		return true
	}
	for _, A := range sets {
		for _, B := range sets {
			a, b := mk(A), mk(B)
			rep := map[string]string{"op": "DecCoins", "a": a.String(), "b": b.String()}
			c.eval++
			var sum sdk.DecCoins
			if p, msg := try(func() { sum = a.Add(b) }); p {
				c.fail("C18/DecCoins.Add/panic", fmt.Sprintf("(%s).Add(%s) panicked: %s", a, b, msg), rep)
				continue
			}
			if !same(sum, dset{A[0] + B[0], A[1] + B[1], A[2] + B[2], A[3] + B[3]}) {
				c.fail("C18/DecCoins.Add/wrong-result", fmt.Sprintf("(%s).Add(%s) = %s", a, b, sum), rep)
				continue
			}
			c.eval++
			var back sdk.DecCoins
			if p, msg := try(func() { back = sum.Sub(b) }); p {
				c.fail("C18/DecCoins.AddSub/panic", fmt.Sprintf("(%s).Sub(%s) panicked: %s", sum, b, msg), rep)
			} else if !same(back, A) {
				c.fail("C18/DecCoins.AddSub/not-inverse", fmt.Sprintf("((%s).Add(%s)).Sub(%s) = %s", a, b, b, back), rep)
			}
			c.eval++
			neg := false
			for i := range A {
				if A[i] < B[i] {
					neg = true
				}
			}
			var hasNeg bool
			if p, msg := try(func() { _, hasNeg = a.SafeSub(b) }); p {
				c.fail("C18/DecCoins.SafeSub/panic", fmt.Sprintf("(%s).SafeSub(%s) panicked: %s", a, b, msg), rep)
			} else if hasNeg != neg {
				c.fail("C18/DecCoins.SafeSub/flag", fmt.Sprintf("(%s).SafeSub(%s): negative flag %v, want %v", a, b, hasNeg, neg), rep)
			}
			// TruncateDecimal splits a set into its integer part and the rest: nothing is lost
			c.eval++
			var tr sdk.Coins
			var ch sdk.DecCoins
			if p, msg := try(func() { tr, ch = sum.TruncateDecimal() }); p {
				c.fail("C18/DecCoins.TruncateDecimal/panic", fmt.Sprintf("(%s).TruncateDecimal() panicked: %s", sum, msg), rep)
			} else {
				for i, d := range denoms {
					tot := A[i] + B[i] // tenths
					wantInt, wantFrac := tot/10, sdk.NewDecWithPrec(tot%10, 1)
					if tr.AmountOf(d).Int64() != wantInt || !ch.AmountOf(d).Equal(wantFrac) {
						c.fail("C18/DecCoins.TruncateDecimal/wrong-result", fmt.Sprintf("(%s).TruncateDecimal() = %s + %s", sum, tr, ch), rep)
						break
					}
				}
			}
			if a.String() != mk(A).String() || b.String() != mk(B).String() {
				c.fail("C18/DecCoins/operand-mutated", fmt.Sprintf("operands changed: %s / %s", a, b), rep)
			}
		}
	}
}

// decCoinsScalar: a decimal coin set times / divided by a decimal: every coin is the Dec operation of
// the same name on its amount (Mul, Quo round half to even; the Truncate variants round toward zero),
// coins that become zero are dropped, the set stays sorted.
func (c *c18) decCoinsScalar() {
	rawAmts := []*big.Int{bigOne, big.NewInt(3), half18, new(big.Int).Add(ten18, bigOne), new(big.Int).Add(new(big.Int).Mul(big.NewInt(7), ten18), big.NewInt(7)), new(big.Int).Sub(ten18, bigOne)}
	rawMul := []*big.Int{big.NewInt(0), bigOne, big.NewInt(333333333333333333), half18, new(big.Int).Mul(big.NewInt(6), pow(10, 17)), ten18, new(big.Int).Mul(big.NewInt(15), pow(10, 17)), new(big.Int).Add(ten18, bigOne), new(big.Int).Neg(half18)}
	denoms := []string{"aaa", "bbb"}
	type opT struct {
		name string
		f    func(cs sdk.DecCoins, d sdk.Dec) sdk.DecCoins
		want func(a, d *big.Int) *big.Int
		div  bool
	}
	ops := []opT{
		{"DecCoins.MulDec", func(cs sdk.DecCoins, d sdk.Dec) sdk.DecCoins { return cs.MulDec(d) }, func(a, d *big.Int) *big.Int { return ratHalfEven(new(big.Int).Mul(a, d), ten18) }, false},
		{"DecCoins.MulDecTruncate", func(cs sdk.DecCoins, d sdk.Dec) sdk.DecCoins { return cs.MulDecTruncate(d) }, func(a, d *big.Int) *big.Int { return ratTrunc(new(big.Int).Mul(a, d), ten18) }, false},
		{"DecCoins.QuoDec", func(cs sdk.DecCoins, d sdk.Dec) sdk.DecCoins { return cs.QuoDec(d) }, func(a, d *big.Int) *big.Int { return ratHalfEven(new(big.Int).Mul(a, ten18), d) }, true},
		{"DecCoins.QuoDecTruncate", func(cs sdk.DecCoins, d sdk.Dec) sdk.DecCoins { return cs.QuoDecTruncate(d) }, func(a, d *big.Int) *big.Int { return ratTrunc(new(big.Int).Mul(a, ten18), d) }, true},
	}
	for _, a0 := range rawAmts {
		for _, a1 := range rawAmts {
			cs := sdk.DecCoins{sdk.NewDecCoinFromDec(denoms[0], mkDec(a0)), sdk.NewDecCoinFromDec(denoms[1], mkDec(a1))}
			for _, m := range rawMul {
				for _, op := range ops {
					if op.div && m.Sign() == 0 {
						continue
					}
					if m.Sign() < 0 {
						continue // negative results are not coins
					}
					c.eval++
					rep := map[string]string{"op": op.name, "coins": cs.String(), "d": mkDec(m).String()}
					var got sdk.DecCoins
					if p, msg := try(func() { got = op.f(cs, mkDec(m)) }); p {
						c.fail("C18/"+op.name+"/panic", fmt.Sprintf("(%s).%s(%s) panicked: %s", cs, op.name, mkDec(m), msg), rep)
						continue
					}
					n := 0
					for i, a := range []*big.Int{a0, a1} {
						w := op.want(a, m)
						if w.Sign() != 0 {
							n++
						}
						if got.AmountOf(denoms[i]).Int.Cmp(w) != 0 {
							c.fail("C18/"+op.name+"/wrong-result", fmt.Sprintf("(%s).%s(%s) = %s: %s should be raw %s", cs, op.name, mkDec(m), got, denoms[i], w), rep)
							break
						}
					}
					if len(got) != n {
						c.fail("C18/"+op.name+"/not-canonical", fmt.Sprintf("(%s).%s(%s) = %s has %d entries, %d are non-zero", cs, op.name, mkDec(m), got, len(got), n), rep)
					}
				}
			}
		}
	}
}

func (c *c18) coins() {
	c.newCoinsWithZeros()
	c.decCoins()
	c.decCoinsScalar()
	amts := []int64{0, 1, 2, 5}
	var sets []coinSet
	for _, x := range amts {
		for _, y := range amts {
			for _, z := range amts {
				sets = append(sets, coinSet{x, y, z})
			}
		}
	}
	c.r.Set("coin_sets", len(sets))
	for _, A := range sets {
		for _, B := range sets {
			a, b := A.coins(), B.coins()
			aCopy, bCopy := a.String(), b.String()
			rep := map[string]string{"a": A.String(), "b": B.String()}
			// Add
			c.eval++
			var sum sdk.Coins
			if p, msg := try(func() { sum = a.Add(b) }); p {
				c.fail("C18/Coins.Add/panic", "Coins.Add panicked: "+msg, rep)
			} else {
				got, canon := coinsToSet(sum)
				want := coinSet{A[0] + B[0], A[1] + B[1], A[2] + B[2]}
				if !canon || got != want || !sum.IsValid() {
					c.fail("C18/Coins.Add/wrong-result", fmt.Sprintf("%s + %s = %s", a, b, sum), rep)
				}
				// Add and Sub are inverse
				c.eval++
				var back sdk.Coins
				if p, msg := try(func() { back = sum.Sub(b) }); p {
					c.fail("C18/Coins.AddSub/panic", "a.Add(b).Sub(b) panicked: "+msg, rep)
				} else if g, ok := coinsToSet(back); !ok || g != A {
					c.fail("C18/Coins.AddSub/not-inverse", fmt.Sprintf("(%s + %s) - %s = %s", a, b, b, back), rep)
				}
			}
			// SafeSub / Sub
			c.eval++
			neg := A[0] < B[0] || A[1] < B[1] || A[2] < B[2]
			var diff sdk.Coins
			var hasNeg bool
			if p, msg := try(func() { diff, hasNeg = a.SafeSub(b) }); p {
				c.fail("C18/Coins.SafeSub/panic", "SafeSub panicked: "+msg, rep)
			} else {
				if hasNeg != neg {
					c.fail("C18/Coins.SafeSub/flag", fmt.Sprintf("%s SafeSub %s: negative flag %v, want %v", a, b, hasNeg, neg), rep)
				}
				for i, d := range coinDenoms {
					if diff.AmountOf(d).Int64() != A[i]-B[i] {
						c.fail("C18/Coins.SafeSub/wrong-result", fmt.Sprintf("%s SafeSub %s = %s", a, b, diff), rep)
						break
					}
				}
				if !neg && !diff.IsValid() {
					c.fail("C18/Coins.SafeSub/not-canonical", fmt.Sprintf("%s SafeSub %s = %s is not canonical", a, b, diff), rep)
				}
			}
			c.eval++
			p, _ := try(func() { a.Sub(b) })
			if p != neg {
				c.fail("C18/Coins.Sub/panic-iff-negative", fmt.Sprintf("%s Sub %s: panicked=%v, some component negative=%v", a, b, p, neg), rep)
			}
			// comparisons, by their documented per-denomination meaning
			allB := func(f func(x, y int64) bool) bool {
				for i := range coinDenoms {
					if B[i] != 0 && !f(A[i], B[i]) {
						return false
					}
				}
				return true
			}
			allA := func(f func(x, y int64) bool) bool { // for every denom in A compare B's amount with A's
				for i := range coinDenoms {
					if A[i] != 0 && !f(B[i], A[i]) {
						return false
					}
				}
				return true
			}
			anyA := func(f func(x, y int64) bool) bool {
				for i := range coinDenoms {
					if A[i] != 0 && B[i] != 0 && f(A[i], B[i]) {
						return true
					}
				}
				return false
			}
			emptyA, emptyB := A == coinSet{}, B == coinSet{}
			gt := func(x, y int64) bool { return x > y }
			gte := func(x, y int64) bool { return x >= y }
			c.expectBool("Coins.IsAllGT", a, b, !emptyA && allB(gt), func() bool { return a.IsAllGT(b) })
			c.expectBool("Coins.IsAllGTE", a, b, allB(gte), func() bool { return a.IsAllGTE(b) })
			c.expectBool("Coins.IsAllLT", a, b, !emptyB && allA(gt), func() bool { return a.IsAllLT(b) })
			c.expectBool("Coins.IsAllLTE", a, b, allA(gte), func() bool { return a.IsAllLTE(b) })
			c.expectBool("Coins.IsAnyGT", a, b, anyA(gt), func() bool { return a.IsAnyGT(b) })
			c.expectBool("Coins.IsAnyGTE", a, b, anyA(gte), func() bool { return a.IsAnyGTE(b) })
			{
				c.eval++
				var got bool
				p, msg := try(func() { got = a.IsEqual(b) })
				sameDenoms := len(a) == len(b)
				if sameDenoms {
					for i := range a {
						if a[i].Denom != b[i].Denom {
							sameDenoms = false
						}
					}
				}
				switch {
				case p && len(a) == len(b) && !sameDenoms:
					c.fail("C18/Coins.IsEqual/panic-on-equal-length-different-denoms", fmt.Sprintf("Coins.IsEqual(%s,%s) panicked: %s", a, b, msg), rep)
				case p:
					c.fail("C18/Coins.IsEqual/panic", fmt.Sprintf("Coins.IsEqual(%s,%s) panicked: %s", a, b, msg), rep)
				case got != (A == B):
					c.fail("C18/Coins.IsEqual/wrong-result", fmt.Sprintf("Coins.IsEqual(%s,%s) = %v", a, b, got), rep)
				}
			}
			for i, d := range coinDenoms {
				c.eval++
				if a.AmountOf(d).Int64() != A[i] {
					c.fail("C18/Coins.AmountOf", "AmountOf wrong", rep)
				}
			}
			if a.String() != aCopy || b.String() != bCopy {
				c.fail("C18/Coins/operand-mutated", fmt.Sprintf("valid operand mutated: %s,%s -> %s,%s", aCopy, bCopy, a, b), rep)
			}
		}
		// canonical form of the valid set itself
		c.eval++
		if !A.coins().IsValid() {
			c.fail("C18/Coins.IsValid/rejects-canonical", "IsValid false for canonical "+A.String(), A.String())
		}
	}
	// invalid inputs
	one := sdk.NewInt(1)
	invalid := map[string]sdk.Coins{
		"unsorted":   {{Denom: "bbb", Amount: one}, {Denom: "aaa", Amount: one}},
		"duplicate":  {{Denom: "aaa", Amount: one}, {Denom: "aaa", Amount: one}},
		"zero":       {{Denom: "aaa", Amount: sdk.ZeroInt()}},
		"zero2":      {{Denom: "aaa", Amount: one}, {Denom: "bbb", Amount: sdk.ZeroInt()}},
		"negative":   {{Denom: "aaa", Amount: sdk.NewInt(-1)}},
		"negative2":  {{Denom: "aaa", Amount: one}, {Denom: "bbb", Amount: sdk.NewInt(-1)}},
		"uppercase":  {{Denom: "AAA", Amount: one}},
		"upper2":     {{Denom: "aaa", Amount: one}, {Denom: "bBb", Amount: one}},
		"shortdenom": {{Denom: "a", Amount: one}},
	}
	for name, cs := range invalid {
		c.eval++
		if cs.IsValid() {
			c.fail("C18/Coins.IsValid/accepts-"+name, "IsValid accepted "+name+" coins "+cs.String(), name)
		}
	}
	// NewCoins canonicalises: sorts, removes zeroes, panics on duplicates
	c.eval += 3
	nc := sdk.NewCoins(sdk.NewInt64Coin("ccc", 3), sdk.NewInt64Coin("aaa", 1), sdk.NewInt64Coin("bbb", 0))
	if got, ok := coinsToSet(nc); !ok || got != (coinSet{1, 0, 3}) {
		c.fail("C18/NewCoins/not-canonical", "NewCoins(3ccc,1aaa,0bbb) = "+nc.String(), nil)
	}
	if p, _ := try(func() { sdk.NewCoins(sdk.NewInt64Coin("aaa", 1), sdk.NewInt64Coin("aaa", 2)) }); !p {
		c.fail("C18/NewCoins/accepts-duplicate", "NewCoins accepted duplicate denominations", nil)
	}
	if p, _ := try(func() { sdk.NewCoins(sdk.Coin{Denom: "aaa", Amount: sdk.NewInt(-1)}) }); !p {
		c.fail("C18/NewCoins/accepts-negative", "NewCoins accepted a negative amount", nil)
	}
}

// C18 runs the check.
func C18(tier string) int {
	r := ev.NewRun("C18", tier, "exploration")
	c := &c18{r: r, kinds: map[string]bool{}}
	c.ints()
	c.uints()
	c.decs(tier)
	c.coins()
	r.Set("evaluations", c.eval)
	r.Set("distinct_nontrivial", len(c.kinds))
	r.Set("rule", "every ordered pair of the boundary operand alphabets (Int, Uint, raw 18-decimal Dec, Dec x Int, coin sets over 3 denominations x amounts {absent,1,2,5}; decimal coin sets over 4 denominations x {absent,0.5,2.0}, and 36 two-coin decimal sets x 8 decimal factors through MulDec / MulDecTruncate / QuoDec / QuoDecTruncate) through every binary operation, every operand through every unary operation/conversion/codec; distinct_nontrivial counts distinct (operation, in-range|overflow) classes that occurred")
	var ks []string
	for k := range c.kinds {
		ks = append(ks, k)
	}
	sort.Strings(ks)
	r.Set("classes", strings.Join(ks, " "))
	r.Sample(map[string]string{"op": "Dec.Quo", "a_raw": "1", "b_raw": "1999999999999999999", "oracle": "ratHalfEven(a*10^18, b)"})
	r.Sample(map[string]string{"op": "Int.Mul", "a": pow(2, 128).String(), "b": pow(2, 127).String(), "oracle": "panic iff bitlen(a*b) > 255"})
	r.Sample(map[string]string{"op": "Coins.SafeSub", "a": "[1 0 5]", "b": "[2 0 5]", "oracle": "flag iff some component negative"})
	r.Assume("exhaustive over the stated operand alphabets only; values outside them are not covered",
		"math/big is the trusted oracle", "Int range ±(2^255-1), Uint range [0,2^256-1], Dec range 315 bits as documented in types/")
	return r.Finish()
}
