package checks

// C12 — Commit is durable and versions are readable.

import (
	"bytes"
	"fmt"
	"runtime"
	"sync"
	"sync/atomic"
	"time"

	"github.com/pokt-network/posmint/store/rootmulti"
	stypes "github.com/pokt-network/posmint/store/types"

	"verif/internal/crashdb"
	"verif/internal/ev"
)

type c12result struct {
	sig, what string
}

// runC12 executes one write history; returns the first failure (nil if none) and counts.
func runC12(h rmHist) (res *c12result, opens int64, loads int64) {
	defer func() {
		if r := recover(); r != nil {
			res = &c12result{fmt.Sprintf("C12|panic|pruning=(%d,%d)", h.Pruning[0], h.Pruning[1]), h.String() + ": " + fmt.Sprintf("panic: %.300v", r)}
		}
	}()
	fail := func(sig, f string, a ...interface{}) (*c12result, int64, int64) {
		return &c12result{fmt.Sprintf("C12|%s|pruning=(%d,%d)", sig, h.Pruning[0], h.Pruning[1]), h.String() + ": " + fmt.Sprintf(f, a...)}, opens, loads
	}
	db := crashdb.New()
	s, err := rmOpen(db, h.N, h.Pruning, -1)
	if err != nil {
		return fail("open-fresh", "cannot open fresh store: %v", err)
	}
	models := make([]kvMap, h.N)
	for i := range models {
		models[i] = kvMap{}
	}
	snaps := map[int64][]kvMap{}
	hashes := map[int64][]byte{}
	for vi, cs := range h.Choice {
		v := int64(vi + 1)
		for i, c := range cs {
			rmApplyChoice(s.kv(i), models[i], c)
		}
		s.rs.GetKVStore(s.tkey).Set([]byte("tmp"), []byte{byte(v)})
		// historical reads while the writes of version v are pending, the way the application makes
		// them (Context.PrevCtx, custom queries): a copy of the multistore loaded at an older version.
		// Retained versions must read as committed; the pending writes must not be disturbed (the
		// content checks after the Commit below decide that). Version 0 on a copy is loaded but its
		// content is not judged.
		for u := int64(0); u < v; u++ {
			if u > 0 && !rmRetained(u, v-1, h.Pruning) {
				continue
			}
			loads++
			cp := (*s.rs.CopyStore()).(*rootmulti.Store)
			var lerr error
			func() {
				defer func() {
					if r := recover(); r != nil {
						lerr = fmt.Errorf("panic: %v", r)
					}
				}()
				lerr = cp.LoadVersion(u)
			}()
			if u == 0 {
				continue
			}
			if lerr != nil {
				return fail("retained-version-unreadable-on-copy", "while version %d is being written, LoadVersion(%d) on a copy of the multistore failed: %v", v, u, lerr)
			}
			for i := 0; i < h.N; i++ {
				if got, want := dumpStore(cp.GetKVStore(s.keys[i])), snaps[u][i].iterate(nil, nil, true); !pairsEqual(got, want) {
					return fail("copy-loaded-content", "while version %d is being written, a copy loaded at %d shows store %s = [%s], committed at %d [%s]", v, u, rmName(i), pairsString(got), u, pairsString(want))
				}
			}
		}
		// the same through CacheMultiStoreWithVersion (what queries at a height use): committed
		// content of that version, without the writes that are pending
		for u := int64(1); u < v; u++ {
			if !rmRetained(u, v-1, h.Pruning) {
				continue
			}
			loads++
			var cms stypes.CacheMultiStore
			var lerr error
			func() {
				defer func() {
					if r := recover(); r != nil {
						lerr = fmt.Errorf("panic: %v", r)
					}
				}()
				cms, lerr = s.rs.CacheMultiStoreWithVersion(u)
			}()
			if lerr != nil {
				return fail("retained-version-unreadable-as-versioned-view", "while version %d is being written, CacheMultiStoreWithVersion(%d) failed: %v", v, u, lerr)
			}
			for i := 0; i < h.N; i++ {
				if got, want := dumpStore(cms.GetKVStore(s.keys[i])), snaps[u][i].iterate(nil, nil, true); !pairsEqual(got, want) {
					return fail("versioned-view-content", "while version %d is being written, the view of version %d shows store %s = [%s], committed at %d [%s]", v, u, rmName(i), pairsString(got), u, pairsString(want))
				}
			}
		}
		cid := s.rs.Commit()
		if cid.Version != v {
			return fail("commit-version", "commit %d returned version %d", v, cid.Version)
		}
		if lc := s.rs.LastCommitID(); lc.Version != v || !bytes.Equal(lc.Hash, cid.Hash) {
			return fail("last-commit-id", "after commit %d LastCommitID = %d/%X, commit returned %X", v, lc.Version, lc.Hash, cid.Hash)
		}
		if !s.transientEmpty() {
			return fail("transient-not-empty", "transient store not empty after commit %d", v)
		}
		snap := make([]kvMap, h.N)
		for i := range models {
			snap[i] = models[i].clone()
		}
		snaps[v] = snap
		hashes[v] = cid.Hash
		// reopen a copy of the database
		dbsnap := db.Snapshot()
		opens++
		s2, err := rmOpen(crashdb.FromSnapshot(dbsnap, nil), h.N, h.Pruning, -1)
		if err != nil {
			return fail("reopen-latest-fails", "after commit %d LoadLatestVersion on a reopened database failed: %v", v, err)
		}
		if lc := s2.rs.LastCommitID(); lc.Version != v || !bytes.Equal(lc.Hash, cid.Hash) {
			return fail("reopen-commit-id", "after commit %d a reopened store reports %d/%X, commit returned %d/%X", v, lc.Version, lc.Hash, v, cid.Hash)
		}
		for i := 0; i < h.N; i++ {
			if got, want := s2.content(i), snap[i].iterate(nil, nil, true); !pairsEqual(got, want) {
				return fail("reopen-content", "after commit %d reopened store %s holds [%s], committed [%s]", v, rmName(i), pairsString(got), pairsString(want))
			}
		}
		if !s2.transientEmpty() {
			return fail("transient-not-empty-after-load", "transient store not empty after reopening at %d", v)
		}
		// every target version 1..v+1
		for u := int64(1); u <= v+1; u++ {
			loads++
			s3, err := rmOpen(crashdb.FromSnapshot(dbsnap, nil), h.N, h.Pruning, u)
			if rmRetained(u, v, h.Pruning) {
				if err != nil {
					return fail("retained-version-unreadable", "after commit %d version %d is retained by the policy but LoadVersion failed: %v", v, u, err)
				}
				if lc := s3.rs.LastCommitID(); lc.Version != u || !bytes.Equal(lc.Hash, hashes[u]) {
					return fail("loaded-commit-id", "after commit %d LoadVersion(%d) reports %d/%X, committed hash %X", v, u, lc.Version, lc.Hash, hashes[u])
				}
				for i := 0; i < h.N; i++ {
					if got, want := s3.content(i), snaps[u][i].iterate(nil, nil, true); !pairsEqual(got, want) {
						return fail("loaded-content", "after commit %d LoadVersion(%d) store %s holds [%s], committed at %d [%s]", v, u, rmName(i), pairsString(got), u, pairsString(want))
					}
				}
				if !s3.transientEmpty() {
					return fail("transient-not-empty-after-load", "transient store not empty after LoadVersion(%d)", u)
				}
			} else if err == nil {
				// pruned or future: an error is required, never data
				var parts []string
				for i := 0; i < h.N; i++ {
					parts = append(parts, pairsString(s3.content(i)))
				}
				kind := "pruned"
				if u > v {
					kind = "future"
				}
				return fail(kind+"-version-readable", "after commit %d LoadVersion(%d) (%s) succeeded and serves %v", v, u, kind, parts)
			}
		}
	}
	// a failed LoadVersion (pruned or future target) on the live handle must not disturb it: same
	// LastCommitID, same content, and the next Commit is version latest+1 which a reopen reports too
	v := int64(len(h.Choice))
	for u := int64(1); u <= v+1; u++ {
		if rmRetained(u, v, h.Pruning) {
			continue
		}
		loads++
		var lerr error
		func() {
			defer func() {
				if r := recover(); r != nil {
					lerr = fmt.Errorf("panic: %v", r)
				}
			}()
			lerr = s.rs.LoadVersion(u)
		}()
		if lerr == nil {
			return fail("unreadable-version-loads-on-live-handle", "LoadVersion(%d) on the live store succeeded although that version is not retained", u)
		}
		if lc := s.rs.LastCommitID(); lc.Version != v || !bytes.Equal(lc.Hash, hashes[v]) {
			return fail("failed-load-disturbs-live-handle", "after the failed LoadVersion(%d) the live store reports %d/%X, it was at %d/%X", u, lc.Version, lc.Hash, v, hashes[v])
		}
	}
	if v >= 1 {
		for i := 0; i < h.N; i++ {
			if got, want := s.content(i), snaps[v][i].iterate(nil, nil, true); !pairsEqual(got, want) {
				return fail("failed-load-disturbs-live-content", "after failed loads store %s holds [%s], committed [%s]", rmName(i), pairsString(got), pairsString(want))
			}
		}
		cid := s.rs.Commit()
		if cid.Version != v+1 {
			return fail("commit-version-after-failed-load", "the commit following failed LoadVersion calls returned version %d, expected %d", cid.Version, v+1)
		}
		opens++
		s5, err := rmOpen(crashdb.FromSnapshot(db.Snapshot(), nil), h.N, h.Pruning, -1)
		if err != nil {
			return fail("reopen-after-failed-load", "reopen after failed loads and one more commit fails: %v", err)
		}
		if lc := s5.rs.LastCommitID(); lc.Version != v+1 || !bytes.Equal(lc.Hash, cid.Hash) {
			return fail("reopen-commit-id-after-failed-load", "reopened store reports %d/%X, last commit was %d/%X", lc.Version, lc.Hash, v+1, cid.Hash)
		}
	}
	// the operator changes node-local settings across a restart (another pruning option, lazy
	// loading): the reopened store reports the same commit id and content, and its next Commit is
	// version latest+1 with the content written, which a further reopen reports too
	final := s.rs.LastCommitID()
	// one handle moved back and forth: LoadVersion(u) for every retained older version shows that
	// version, LoadLatestVersion() afterwards shows the latest again; and a second handle opened on the
	// same database before a further commit of the first one catches up with LoadLatestVersion()
	if final.Version >= 1 {
		dbh := crashdb.FromSnapshot(db.Snapshot(), nil)
		opens++
		a, err := rmOpen(dbh, h.N, h.Pruning, -1)
		if err != nil {
			return fail("reopen-latest-fails", "reopen at %d fails: %v", final.Version, err)
		}
		vsnap := func(u int64) []kvMap {
			if u == final.Version {
				return models
			}
			return snaps[u]
		}
		for u := int64(1); u < final.Version; u++ {
			if !rmRetained(u, final.Version, h.Pruning) || snaps[u] == nil {
				continue
			}
			loads += 2
			if err := a.rs.LoadVersion(u); err != nil {
				return fail("retained-version-unreadable-on-live-handle", "LoadVersion(%d) on a handle at %d fails: %v", u, final.Version, err)
			}
			for i := 0; i < h.N; i++ {
				if got, w := a.content(i), vsnap(u)[i].iterate(nil, nil, true); !pairsEqual(got, w) {
					return fail("loaded-content-on-live-handle", "LoadVersion(%d) on a handle at %d: store %s holds [%s], committed [%s]", u, final.Version, rmName(i), pairsString(got), pairsString(w))
				}
			}
			if err := a.rs.LoadLatestVersion(); err != nil {
				return fail("load-latest-after-older-fails", "LoadLatestVersion() after LoadVersion(%d) fails: %v", u, err)
			}
			if lc := a.rs.LastCommitID(); lc.Version != final.Version || !bytes.Equal(lc.Hash, final.Hash) {
				return fail("load-latest-after-older-commit-id", "LoadLatestVersion() after LoadVersion(%d) reports %d/%X, the latest commit is %d/%X", u, lc.Version, lc.Hash, final.Version, final.Hash)
			}
			for i := 0; i < h.N; i++ {
				if got, w := a.content(i), models[i].iterate(nil, nil, true); !pairsEqual(got, w) {
					return fail("load-latest-after-older-content", "LoadLatestVersion() after LoadVersion(%d): store %s holds [%s], latest [%s]", u, rmName(i), pairsString(got), pairsString(w))
				}
			}
		}
		opens++
		b, err := rmOpen(dbh, h.N, h.Pruning, -1) // second handle on the same database
		if err != nil {
			return fail("reopen-latest-fails", "second handle at %d fails: %v", final.Version, err)
		}
		ma := models[0].clone()
		rmApplyChoice(a.kv(0), ma, 2)
		cid := a.rs.Commit()
		if err := b.rs.LoadLatestVersion(); err != nil {
			return fail("second-handle-load-latest-fails", "the second handle's LoadLatestVersion() after the first committed %d fails: %v", cid.Version, err)
		}
		if lc := b.rs.LastCommitID(); lc.Version != cid.Version || !bytes.Equal(lc.Hash, cid.Hash) {
			return fail("second-handle-behind", "a second handle on the same database reports %d/%X after LoadLatestVersion(), the first handle committed %d/%X", lc.Version, lc.Hash, cid.Version, cid.Hash)
		}
		if got, w := b.content(0), ma.iterate(nil, nil, true); !pairsEqual(got, w) {
			return fail("second-handle-content", "second handle after LoadLatestVersion(): store %s holds [%s], committed [%s]", rmName(0), pairsString(got), pairsString(w))
		}
	}
	// a store mounted for the first time on a database that already holds commits (an upgrade that
	// adds a module): its own version numbering starts below the multistore's. The reopened store
	// reports the last commit and the old content; every further commit is reported by a fresh reopen
	// with the content of all stores, the added one included
	if final.Version >= 1 {
		dbl := crashdb.FromSnapshot(db.Snapshot(), nil)
		opens++
		sl, err := rmOpen(dbl, h.N+1, h.Pruning, -1)
		if err != nil {
			return fail("reopen-with-added-store", "reopening at version %d with one more store mounted fails: %v", final.Version, err)
		}
		if lc := sl.rs.LastCommitID(); lc.Version != final.Version || !bytes.Equal(lc.Hash, final.Hash) {
			return fail("reopen-with-added-store-commit-id", "reopened with one more store mounted: reports %d/%X, last commit was %d/%X", lc.Version, lc.Hash, final.Version, final.Hash)
		}
		ml := make([]kvMap, h.N+1)
		for i := 0; i < h.N; i++ {
			ml[i] = models[i].clone()
		}
		ml[h.N] = kvMap{}
		for round, ch := range [][2]int{{1, 2}, {2, 0}, {4, 5}, {3, 1}} {
			rmApplyChoice(sl.kv(h.N), ml[h.N], ch[0])
			rmApplyChoice(sl.kv(0), ml[0], ch[1])
			var cid stypes.CommitID
			var cerr interface{}
			func() {
				defer func() { cerr = recover() }()
				cid = sl.rs.Commit()
			}()
			want := final.Version + int64(round) + 1
			if cerr != nil || cid.Version != want {
				return fail("commit-with-added-store", "commit %d after mounting one more store returned version %d / panic %v, expected %d", round+1, cid.Version, cerr, want)
			}
			opens++
			sr, err := rmOpen(crashdb.FromSnapshot(dbl.Snapshot(), nil), h.N+1, h.Pruning, -1)
			if err != nil {
				return fail("reopen-after-commit-with-added-store", "a store was mounted at version %d; after commit %d the database does not reopen: %v", final.Version, want, err)
			}
			if lc := sr.rs.LastCommitID(); lc.Version != cid.Version || !bytes.Equal(lc.Hash, cid.Hash) {
				return fail("reopen-commit-id-with-added-store", "a store was mounted at version %d; reopened after commit %d: reports %d/%X, commit returned %X", final.Version, want, lc.Version, lc.Hash, cid.Hash)
			}
			for i := 0; i <= h.N; i++ {
				if got, w := sr.content(i), ml[i].iterate(nil, nil, true); !pairsEqual(got, w) {
					return fail("reopen-content-with-added-store", "a store was mounted at version %d; reopened after commit %d store %s holds [%s], committed [%s]", final.Version, want, rmName(i), pairsString(got), pairsString(w))
				}
			}
			// the version that predates the added store, while the policy retains it: loads, with the
			// content the old stores had then (what the added store shows at a version it did not exist
			// in is not judged)
			if rmRetained(final.Version, want, h.Pruning) {
				loads++
				so, err := rmOpen(crashdb.FromSnapshot(dbl.Snapshot(), nil), h.N+1, h.Pruning, final.Version)
				if err != nil {
					return fail("version-before-added-store-unreadable", "a store was mounted at version %d; at version %d the retained version %d no longer loads: %v", final.Version, want, final.Version, err)
				}
				for i := 0; i < h.N; i++ {
					if got, w := so.content(i), models[i].iterate(nil, nil, true); !pairsEqual(got, w) {
						return fail("version-before-added-store-content", "a store was mounted at version %d; LoadVersion(%d) at version %d: store %s holds [%s], committed [%s]", final.Version, final.Version, want, rmName(i), pairsString(got), pairsString(w))
					}
				}
			}
		}
	}
	if final.Version >= 1 && !h.SkipSettings {
		base := db.Snapshot()
		for _, p2 := range rmPrunings {
			for _, mode := range []string{"eager", "lazy", "set-after-load"} {
				lazy := mode == "lazy"
				if p2 == h.Pruning && mode != "lazy" {
					continue
				}
				opens++
				db2 := crashdb.FromSnapshot(base, nil)
				var s6 *rmStore
				var err error
				if mode == "set-after-load" {
					// the options are changed on the loaded store (rootmulti.SetPruning hands them to the
					// substores that are already loaded)
					if s6, err = rmOpenLazy(db2, h.N, h.Pruning, -1, false); err == nil {
						s6.rs.SetPruning(stypes.NewPruningOptions(p2[0], p2[1]))
					}
				} else {
					s6, err = rmOpenLazy(db2, h.N, p2, -1, lazy)
				}
				if err != nil {
					return fail("reopen-with-other-settings", "reopen with pruning (%d,%d) lazy=%v fails: %v", p2[0], p2[1], lazy, err)
				}
				if lc := s6.rs.LastCommitID(); lc.Version != final.Version || !bytes.Equal(lc.Hash, final.Hash) {
					return fail("reopen-with-other-settings-commit-id", "reopened with pruning (%d,%d) lazy=%v reports %d/%X, last commit was %d/%X", p2[0], p2[1], lazy, lc.Version, lc.Hash, final.Version, final.Hash)
				}
				m := models[0].clone()
				rmApplyChoice(s6.kv(0), m, 2)
				var cid stypes.CommitID
				var cerr interface{}
				func() {
					defer func() { cerr = recover() }()
					cid = s6.rs.Commit()
				}()
				if cerr != nil || cid.Version != final.Version+1 {
					return fail("commit-after-reopen-with-other-settings", "after reopening with pruning (%d,%d) lazy=%v (the store ran with (%d,%d)) the next Commit returned version %d / panic %v, expected version %d", p2[0], p2[1], lazy, h.Pruning[0], h.Pruning[1], cid.Version, cerr, final.Version+1)
				}
				opens++
				s7, err := rmOpenLazy(crashdb.FromSnapshot(db2.Snapshot(), nil), h.N, p2, -1, lazy)
				if err != nil {
					return fail("reopen-after-commit-with-other-settings", "second reopen with pruning (%d,%d) lazy=%v fails: %v", p2[0], p2[1], lazy, err)
				}
				if lc := s7.rs.LastCommitID(); lc.Version != cid.Version || !bytes.Equal(lc.Hash, cid.Hash) {
					return fail("reopen-with-other-settings-commit-id", "second reopen reports %d/%X, commit returned %d/%X", lc.Version, lc.Hash, cid.Version, cid.Hash)
				}
				if got, want := s7.content(0), m.iterate(nil, nil, true); !pairsEqual(got, want) {
					return fail("reopen-with-other-settings-content", "after reopening with pruning (%d,%d) lazy=%v and one commit store %s holds [%s], written [%s]", p2[0], p2[1], lazy, rmName(0), pairsString(got), pairsString(want))
				}
				// two more commits on the same handle; the versions committed since the settings changed
				// are retained / released by the new options (older ones were kept or released under the
				// old options and are not judged)
				F := final.Version
				after := map[int64]kvMap{F + 1: m.clone()}
				for i, ch := range []int{1, 4} {
					rmApplyChoice(s6.kv(0), m, ch)
					func() {
						defer func() { cerr = recover() }()
						cid = s6.rs.Commit()
					}()
					if cerr != nil || cid.Version != F+2+int64(i) {
						return fail("commit-after-reopen-with-other-settings", "mode %s pruning (%d,%d): commit %d after the change returned version %d / panic %v", mode, p2[0], p2[1], i+2, cid.Version, cerr)
					}
					after[cid.Version] = m.clone()
				}
				snap2 := db2.Snapshot()
				for u := F + 1; u <= F+3; u++ {
					loads++
					s8, lerr := rmOpenLazy(crashdb.FromSnapshot(snap2, nil), h.N, p2, u, false)
					if rmRetained(u, F+3, p2) {
						if lerr != nil {
							return fail("retained-version-unreadable-after-settings-change|"+mode, "options (%d,%d) in force since version %d (%s; before: (%d,%d)): version %d is retained at version %d but LoadVersion fails: %v", p2[0], p2[1], F, mode, h.Pruning[0], h.Pruning[1], u, F+3, lerr)
						}
						if got, want := s8.content(0), after[u].iterate(nil, nil, true); !pairsEqual(got, want) {
							return fail("loaded-content-after-settings-change|"+mode, "options (%d,%d) since version %d (%s): LoadVersion(%d) store %s holds [%s], committed [%s]", p2[0], p2[1], F, mode, u, rmName(0), pairsString(got), pairsString(want))
						}
					} else if lerr == nil && mode != "lazy" {
						// (a lazily loaded tree does not release versions it has not loaded; only eager handles are judged here)
						return fail("pruned-version-readable-after-settings-change|"+mode, "options (%d,%d) since version %d (%s): version %d should have been released by version %d but loads", p2[0], p2[1], F, mode, u, F+3)
					}
				}
			}
		}
	}
	return nil, opens, loads
}

// c12nontrivial: some choice changes the content of its store (choice 0 = nothing; a delete of an
// absent key or a repeated identical write changes nothing).
func c12nontrivial(ch [][]int) bool {
	if len(ch) == 0 {
		return false
	}
	ms := make([]kvMap, len(ch[0]))
	for i := range ms {
		ms[i] = kvMap{}
	}
	changes := 0
	for _, cs := range ch {
		for i, c := range cs {
			before := pairsString(ms[i].iterate(nil, nil, true))
			rmApplyChoice(nil, ms[i], c)
			if pairsString(ms[i].iterate(nil, nil, true)) != before {
				changes++
			}
		}
	}
	return changes >= 2
}

// C12 entry point.
func C12(tier string) int {
	run := ev.NewRun("C12", tier, "model_checking")
	type job struct{ n, v, choices int }
	jobs := []job{{1, 3, 6}, {2, 2, 6}, {2, 3, 4}}
	if tier == "thorough" {
		jobs = []job{{1, 4, 6}, {2, 2, 6}, {2, 3, 6}, {3, 2, 6}, {2, 4, 4}}
	}
	var hist, opens, loads, nontrivial, skipped int64
	deadline := time.Now().Add(25 * time.Minute)
	if tier != "thorough" {
		deadline = time.Now().Add(4 * time.Minute)
	}
	var mu sync.Mutex
	sem := make(chan struct{}, runtime.NumCPU())
	var wg sync.WaitGroup
	var desc []string
	for _, names := range []int{0, 1} {
		names := names
		atomic.StoreInt32(&rmNameVariant, int32(names))
		for _, j := range jobs {
			if names == 1 && j.n < 2 {
				continue
			}
			cnt := int64(0)
			for _, pr := range rmPrunings {
				pr := pr
				var batch [][][]int
				flush := func(b [][][]int) {
					wg.Add(1)
					sem <- struct{}{}
					go func() {
						defer wg.Done()
						defer func() { <-sem }()
						for _, ch := range b {
							// (the settings-change phase - 20 reopen modes x 3 commits x 3 loads - runs for the histories of one substore in the quick tier and for those with N x V <= 4 in the thorough tier)
							h := rmHist{N: j.n, Choice: ch, Pruning: pr, Names: names, SkipSettings: j.n*j.v > 4 || (tier != "thorough" && j.n > 1)}
							r, o, l := runC12(h)
							if c12nontrivial(ch) {
								atomic.AddInt64(&nontrivial, 1)
							}
							atomic.AddInt64(&opens, o)
							atomic.AddInt64(&loads, l)
							if r != nil {
								mu.Lock()
								run.Report(r.sig, r.what, h)
								mu.Unlock()
							}
						}
					}()
				}
				enumChoices(j.n, j.v, j.choices, func(ch [][]int) {
					if time.Now().After(deadline) {
						skipped++
						return
					}
					cnt++
					batch = append(batch, copyChoices(ch))
					if len(batch) == 256 {
						flush(batch)
						batch = nil
					}
				})
				if len(batch) > 0 {
					flush(batch)
				}
			}
			hist += cnt
			desc = append(desc, fmt.Sprintf("N=%d V=%d choices=%d: %d histories x %d pruning options (store names variant %d)", j.n, j.v, j.choices, cnt/int64(len(rmPrunings)), len(rmPrunings), names))
		}
		wg.Wait()
	}
	atomic.StoreInt32(&rmNameVariant, 0)
	// dedicated-database pass: substores mounted on their own databases (every non-empty subset of
	// the N substores), the multistore kept open / restarted before every commit (eagerly, lazily)
	dedJobs := []job{{2, 2, 6}, {2, 3, 4}}
	if tier == "thorough" {
		dedJobs = []job{{2, 2, 6}, {2, 3, 6}, {3, 2, 4}}
	}
	var dedHist int64
	for _, j := range dedJobs {
		cnt := int64(0)
		for _, pr := range rmPrunings {
			for mask := 1; mask < 1<<uint(j.n); mask++ {
				for _, reopen := range []int{0, 1, 2} {
					pr, mask, reopen := pr, mask, reopen
					var batch [][][]int
					flush := func(b [][][]int) {
						wg.Add(1)
						sem <- struct{}{}
						go func() {
							defer wg.Done()
							defer func() { <-sem }()
							for _, ch := range b {
								h := rmHist{N: j.n, Choice: ch, Pruning: pr, Dedicated: mask, Reopen: reopen}
								r, o, l := runC12Dedicated(h)
								atomic.AddInt64(&opens, o)
								atomic.AddInt64(&loads, l)
								if r != nil {
									mu.Lock()
									run.Report(r.sig, r.what, h)
									mu.Unlock()
								}
							}
						}()
					}
					enumChoices(j.n, j.v, j.choices, func(ch [][]int) {
						if time.Now().After(deadline) {
							skipped++
							return
						}
						cnt++
						batch = append(batch, copyChoices(ch))
						if len(batch) == 256 {
							flush(batch)
							batch = nil
						}
					})
					if len(batch) > 0 {
						flush(batch)
					}
				}
			}
		}
		dedHist += cnt
		desc = append(desc, fmt.Sprintf("dedicated databases: N=%d V=%d choices=%d: %d histories x %d pruning options x %d subsets of substores on their own database x {kept open, restarted before every commit, restarted lazily}", j.n, j.v, j.choices, cnt/int64(len(rmPrunings)*3*(1<<uint(j.n)-1)), len(rmPrunings), 1<<uint(j.n)-1))
	}
	wg.Wait()
	hist += dedHist
	run.Set("dedicated_database_histories", dedHist)
	if skipped > 0 {
		run.Set("exhaustive", false)
		run.Set("cap_hit", fmt.Sprintf("internal deadline reached: %d of %d histories were not run", skipped, skipped+hist))
	}
	run.Set("evaluations", hist)
	run.Set("states", hist+opens+loads)
	run.Set("transitions", opens+loads)
	run.Set("traces_validated_against_impl", hist)
	run.Set("distinct_nontrivial", nontrivial)
	run.Set("jobs", desc)
	run.Set("reopens", opens)
	run.Set("load_version_calls", loads)
	run.Set("rule", "every write history (per version and per substore one of {nothing, k1=a, k1=b, delete k1, k2=a, k1=a+delete k2}) over N IAVL substores + 1 transient store, V versions, each of 7 pruning options, with store names s1,s2,... and again (N >= 2) with names that are proper prefixes of each other (acc, accounts); after every commit: reopen on a copy (LoadLatestVersion) and LoadVersion(u) for every u in 1..latest+1; before every commit: every retained version loaded on a CopyStore of the live multistore and read through CacheMultiStoreWithVersion while the writes are pending; at the end: failed loads on the live handle; one handle loaded at every retained older version and back at the latest; a second handle on the same database catching up after a commit of the first; a reopen with one more substore mounted for the first time followed by four commits, each checked by a fresh reopen; a pass in which every non-empty subset of the substores is mounted on its own database (MountStoreWithDB with a database), kept open or restarted before every commit, all databases copied and reopened after every commit at the latest and at every version 1..latest+1; and a reopen under every other pruning option (eagerly, lazily, or with the options changed on the loaded store) followed by three commits, after which the versions committed since are loaded: those the new options retain must read as committed, the others must be gone. Histories are distinct by construction; non-trivial = the content of some store differs between two versions (a write or delete that takes effect)")
	run.Sample(rmHist{N: 2, Choice: [][]int{{1, 4}, {3, 0}, {2, 5}}, Pruning: [2]int64{0, 2}}.String())
	run.Assume("MemDB stands in for the on-disk database", "retention rule: commit w releases version w-1-keepRecent unless it is a multiple of keepEvery (store/iavl documentation)", "LoadVersion(0) is not judged (0 is not a committed version)")
	return run.Finish()
}

func init() { Registry["C12"] = C12 }
