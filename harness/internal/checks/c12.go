package checks

// C12 — Commit is durable and versions are readable.

import (
	"bytes"
	"fmt"
	"runtime"
	"sync"
	"sync/atomic"

	"verif/internal/crashdb"
	"verif/internal/ev"
)

type c12result struct {
	sig, what string
}

// runC12 executes one write history; returns the first failure (nil if none) and counts.
func runC12(h rmHist) (res *c12result, opens int64, loads int64) {
	defer func() {
		if r := recover(); r != nil {
			res = &c12result{fmt.Sprintf("C12|panic|pruning=(%d,%d)", h.Pruning[0], h.Pruning[1]), h.String() + ": " + fmt.Sprintf("panic: %.300v", r)}
		}
	}()
	fail := func(sig, f string, a ...interface{}) (*c12result, int64, int64) {
		return &c12result{fmt.Sprintf("C12|%s|pruning=(%d,%d)", sig, h.Pruning[0], h.Pruning[1]), h.String() + ": " + fmt.Sprintf(f, a...)}, opens, loads
	}
	db := crashdb.New()
	s, err := rmOpen(db, h.N, h.Pruning, -1)
	if err != nil {
		return fail("open-fresh", "cannot open fresh store: %v", err)
	}
	models := make([]kvMap, h.N)
	for i := range models {
		models[i] = kvMap{}
	}
	snaps := map[int64][]kvMap{}
	hashes := map[int64][]byte{}
	for vi, cs := range h.Choice {
		v := int64(vi + 1)
		for i, c := range cs {
			rmApplyChoice(s.kv(i), models[i], c)
		}
		s.rs.GetKVStore(s.tkey).Set([]byte("tmp"), []byte{byte(v)})
		cid := s.rs.Commit()
		if cid.Version != v {
			return fail("commit-version", "commit %d returned version %d", v, cid.Version)
		}
		if lc := s.rs.LastCommitID(); lc.Version != v || !bytes.Equal(lc.Hash, cid.Hash) {
			return fail("last-commit-id", "after commit %d LastCommitID = %d/%X, commit returned %X", v, lc.Version, lc.Hash, cid.Hash)
		}
		if !s.transientEmpty() {
			return fail("transient-not-empty", "transient store not empty after commit %d", v)
		}
		snap := make([]kvMap, h.N)
		for i := range models {
			snap[i] = models[i].clone()
		}
		snaps[v] = snap
		hashes[v] = cid.Hash
		// reopen a copy of the database
		dbsnap := db.Snapshot()
		opens++
		s2, err := rmOpen(crashdb.FromSnapshot(dbsnap, nil), h.N, h.Pruning, -1)
		if err != nil {
			return fail("reopen-latest-fails", "after commit %d LoadLatestVersion on a reopened database failed: %v", v, err)
		}
		if lc := s2.rs.LastCommitID(); lc.Version != v || !bytes.Equal(lc.Hash, cid.Hash) {
			return fail("reopen-commit-id", "after commit %d a reopened store reports %d/%X, commit returned %d/%X", v, lc.Version, lc.Hash, v, cid.Hash)
		}
		for i := 0; i < h.N; i++ {
			if got, want := s2.content(i), snap[i].iterate(nil, nil, true); !pairsEqual(got, want) {
				return fail("reopen-content", "after commit %d reopened store %s holds [%s], committed [%s]", v, rmName(i), pairsString(got), pairsString(want))
			}
		}
		if !s2.transientEmpty() {
			return fail("transient-not-empty-after-load", "transient store not empty after reopening at %d", v)
		}
		// every target version 1..v+1
		for u := int64(1); u <= v+1; u++ {
			loads++
			s3, err := rmOpen(crashdb.FromSnapshot(dbsnap, nil), h.N, h.Pruning, u)
			if rmRetained(u, v, h.Pruning) {
				if err != nil {
					return fail("retained-version-unreadable", "after commit %d version %d is retained by the policy but LoadVersion failed: %v", v, u, err)
				}
				if lc := s3.rs.LastCommitID(); lc.Version != u || !bytes.Equal(lc.Hash, hashes[u]) {
					return fail("loaded-commit-id", "after commit %d LoadVersion(%d) reports %d/%X, committed hash %X", v, u, lc.Version, lc.Hash, hashes[u])
				}
				for i := 0; i < h.N; i++ {
					if got, want := s3.content(i), snaps[u][i].iterate(nil, nil, true); !pairsEqual(got, want) {
						return fail("loaded-content", "after commit %d LoadVersion(%d) store %s holds [%s], committed at %d [%s]", v, u, rmName(i), pairsString(got), u, pairsString(want))
					}
				}
				if !s3.transientEmpty() {
					return fail("transient-not-empty-after-load", "transient store not empty after LoadVersion(%d)", u)
				}
			} else if err == nil {
				// pruned or future: an error is required, never data
				var parts []string
				for i := 0; i < h.N; i++ {
					parts = append(parts, pairsString(s3.content(i)))
				}
				kind := "pruned"
				if u > v {
					kind = "future"
				}
				return fail(kind+"-version-readable", "after commit %d LoadVersion(%d) (%s) succeeded and serves %v", v, u, kind, parts)
			}
		}
	}
	// a failed LoadVersion (pruned or future target) on the live handle must not disturb it: same
	// LastCommitID, same content, and the next Commit is version latest+1 which a reopen reports too
	v := int64(len(h.Choice))
	for u := int64(1); u <= v+1; u++ {
		if rmRetained(u, v, h.Pruning) {
			continue
		}
		loads++
		var lerr error
		func() {
			defer func() {
				if r := recover(); r != nil {
					lerr = fmt.Errorf("panic: %v", r)
				}
			}()
			lerr = s.rs.LoadVersion(u)
		}()
		if lerr == nil {
			return fail("unreadable-version-loads-on-live-handle", "LoadVersion(%d) on the live store succeeded although that version is not retained", u)
		}
		if lc := s.rs.LastCommitID(); lc.Version != v || !bytes.Equal(lc.Hash, hashes[v]) {
			return fail("failed-load-disturbs-live-handle", "after the failed LoadVersion(%d) the live store reports %d/%X, it was at %d/%X", u, lc.Version, lc.Hash, v, hashes[v])
		}
	}
	if v >= 1 {
		for i := 0; i < h.N; i++ {
			if got, want := s.content(i), snaps[v][i].iterate(nil, nil, true); !pairsEqual(got, want) {
				return fail("failed-load-disturbs-live-content", "after failed loads store %s holds [%s], committed [%s]", rmName(i), pairsString(got), pairsString(want))
			}
		}
		cid := s.rs.Commit()
		if cid.Version != v+1 {
			return fail("commit-version-after-failed-load", "the commit following failed LoadVersion calls returned version %d, expected %d", cid.Version, v+1)
		}
		opens++
		s5, err := rmOpen(crashdb.FromSnapshot(db.Snapshot(), nil), h.N, h.Pruning, -1)
		if err != nil {
			return fail("reopen-after-failed-load", "reopen after failed loads and one more commit fails: %v", err)
		}
		if lc := s5.rs.LastCommitID(); lc.Version != v+1 || !bytes.Equal(lc.Hash, cid.Hash) {
			return fail("reopen-commit-id-after-failed-load", "reopened store reports %d/%X, last commit was %d/%X", lc.Version, lc.Hash, v+1, cid.Hash)
		}
	}
	return nil, opens, loads
}

// C12 entry point.
func C12(tier string) int {
	run := ev.NewRun("C12", tier, "model_checking")
	type job struct{ n, v, choices int }
	jobs := []job{{1, 3, 6}, {2, 2, 6}, {2, 3, 4}}
	if tier == "thorough" {
		jobs = []job{{1, 4, 6}, {2, 3, 6}, {3, 2, 6}, {2, 4, 4}}
	}
	var hist, opens, loads int64
	var mu sync.Mutex
	sem := make(chan struct{}, runtime.NumCPU())
	var wg sync.WaitGroup
	var desc []string
	for _, j := range jobs {
		cnt := int64(0)
		for _, pr := range rmPrunings {
			pr := pr
			var batch [][][]int
			flush := func(b [][][]int) {
				wg.Add(1)
				sem <- struct{}{}
				go func() {
					defer wg.Done()
					defer func() { <-sem }()
					for _, ch := range b {
						h := rmHist{N: j.n, Choice: ch, Pruning: pr}
						r, o, l := runC12(h)
						atomic.AddInt64(&opens, o)
						atomic.AddInt64(&loads, l)
						if r != nil {
							mu.Lock()
							run.Report(r.sig, r.what, h)
							mu.Unlock()
						}
					}
				}()
			}
			enumChoices(j.n, j.v, j.choices, func(ch [][]int) {
				cnt++
				batch = append(batch, copyChoices(ch))
				if len(batch) == 256 {
					flush(batch)
					batch = nil
				}
			})
			if len(batch) > 0 {
				flush(batch)
			}
		}
		hist += cnt
		desc = append(desc, fmt.Sprintf("N=%d V=%d choices=%d: %d histories x %d pruning options", j.n, j.v, j.choices, cnt/int64(len(rmPrunings)), len(rmPrunings)))
	}
	wg.Wait()
	run.Set("evaluations", hist)
	run.Set("states", hist+opens+loads)
	run.Set("transitions", opens+loads)
	run.Set("traces_validated_against_impl", hist)
	run.Set("distinct_nontrivial", hist)
	run.Set("jobs", desc)
	run.Set("reopens", opens)
	run.Set("load_version_calls", loads)
	run.Set("rule", "every write history (per version and per substore one of {nothing, k1=a, k1=b, delete k1, k2=a, k1=a+delete k2}) over N IAVL substores + 1 transient store, V versions, each of 7 pruning options; after every commit: reopen on a copy (LoadLatestVersion) and LoadVersion(u) for every u in 1..latest+1")
	run.Sample(rmHist{N: 2, Choice: [][]int{{1, 4}, {3, 0}, {2, 5}}, Pruning: [2]int64{0, 2}}.String())
	run.Assume("MemDB stands in for the on-disk database", "retention rule: commit w releases version w-1-keepRecent unless it is a multiple of keepEvery (store/iavl documentation)", "LoadVersion(0) is not judged (0 is not a committed version)")
	return run.Finish()
}

func init() { Registry["C12"] = C12 }
