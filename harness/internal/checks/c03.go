package checks

// C03 — only the signer's key authorises a transaction. Exhaustive finite matrices of
// (message kind x signer account kind x signing key relation x key source), post-signing
// mutations, fee/multiplier/balance grids, memo bounds and replays, each case delivered through
// the real DeliverTx (and CheckTx) of a live chain; independent acceptance oracle.

import (
	"bytes"
	"fmt"
	"sort"
	"strings"
	"sync"

	"github.com/pokt-network/posmint/crypto"
	sdk "github.com/pokt-network/posmint/types"
	authTypes "github.com/pokt-network/posmint/x/auth/types"
	govTypes "github.com/pokt-network/posmint/x/gov/types"
	posTypes "github.com/pokt-network/posmint/x/pos/types"
	abci "github.com/tendermint/tendermint/abci/types"
	"github.com/tendermint/tendermint/crypto/ed25519"
	"github.com/tendermint/tendermint/crypto/secp256k1"

	"verif/internal/chain"
	"verif/internal/ev"
)

// c03signer is an account kind with its own signing procedure.
type c03signer struct {
	kind string
	addr sdk.Address
	pk   crypto.PublicKey
	// sign produces the signature bytes for the variant; pkUsed is the key the signature is (claimed to be) made with
	sign     func(variant string, signBytes []byte) (sig []byte, pkUsed crypto.PublicKey)
	variants []string
	stored   bool // the account stores its public key (so the key may be omitted from the signature)
}

func sigOf(k int, sb []byte) []byte {
	s, err := chain.Key(k).Sign(sb)
	if err != nil {
		panic(err)
	}
	return s
}

func multiSigBytes(sigs ...[]byte) []byte {
	ms := crypto.MultiSignature{Sigs: sigs}
	return ms.Marshal()
}

func mustMulti(keys ...crypto.PublicKey) crypto.PublicKeyMultiSig {
	k, err := crypto.PublicKeyMultiSignature{}.NewMultiKey(keys...)
	if err != nil {
		panic(err)
	}
	return k
}

func c03signers() []c03signer {
	single := func(kind string, own, otherSame, otherType int, stored bool) c03signer {
		return c03signer{kind: kind, addr: chain.Addr(own), pk: chain.Pub(own), stored: stored,
			variants: []string{"own", "other-same-type", "other-type"},
			sign: func(v string, sb []byte) ([]byte, crypto.PublicKey) {
				switch v {
				case "own":
					return sigOf(own, sb), chain.Pub(own)
				case "other-same-type":
					return sigOf(otherSame, sb), chain.Pub(otherSame)
				default:
					return sigOf(otherType, sb), chain.Pub(otherType)
				}
			}}
	}
	mk := mustMulti(chain.Pub(5), chain.Pub(6))
	inner := mustMulti(chain.Pub(8), chain.Pub(109))
	nk := mustMulti(chain.Pub(7), inner)
	multi := c03signer{kind: "multisig", addr: sdk.Address(mk.Address()), pk: mk,
		variants: []string{"own", "foreign-component", "swapped", "short", "duplicate", "extra", "other-multisig", "single-key"},
		sign: func(v string, sb []byte) ([]byte, crypto.PublicKey) {
			switch v {
			case "own":
				return multiSigBytes(sigOf(5, sb), sigOf(6, sb)), mk
			case "foreign-component":
				return multiSigBytes(sigOf(5, sb), sigOf(3, sb)), mk
			case "swapped":
				return multiSigBytes(sigOf(6, sb), sigOf(5, sb)), mk
			case "short":
				return multiSigBytes(sigOf(5, sb)), mk
			case "duplicate":
				return multiSigBytes(sigOf(5, sb), sigOf(5, sb)), mk
			case "extra":
				return multiSigBytes(sigOf(5, sb), sigOf(6, sb), sigOf(5, sb)), mk
			case "other-multisig": // a different, fully valid multisig key signs
				o := mustMulti(chain.Pub(3), chain.Pub(6))
				return multiSigBytes(sigOf(3, sb), sigOf(6, sb)), o
			default: // a single key signs
				return sigOf(5, sb), chain.Pub(5)
			}
		}}
	nested := c03signer{kind: "nested-multisig", addr: sdk.Address(nk.Address()), pk: nk,
		variants: []string{"own", "inner-foreign", "inner-swapped", "inner-as-single"},
		sign: func(v string, sb []byte) ([]byte, crypto.PublicKey) {
			switch v {
			case "own":
				return multiSigBytes(sigOf(7, sb), multiSigBytes(sigOf(8, sb), sigOf(109, sb))), nk
			case "inner-foreign":
				return multiSigBytes(sigOf(7, sb), multiSigBytes(sigOf(8, sb), sigOf(3, sb))), nk
			case "inner-swapped":
				return multiSigBytes(sigOf(7, sb), multiSigBytes(sigOf(109, sb), sigOf(8, sb))), nk
			default:
				return multiSigBytes(sigOf(7, sb), sigOf(8, sb)), nk
			}
		}}
	return []c03signer{single("ed25519", 2, 3, 100, true), single("secp256k1", 100, 101, 2, true), multi, nested}
}

// independentVerify checks a signature with Tendermint's primitives and the positional N-of-N rule.
func independentVerify(pk crypto.PublicKey, sb, sig []byte) bool {
	switch k := pk.(type) {
	case crypto.Ed25519PublicKey:
		return ed25519.PubKeyEd25519(k).VerifyBytes(sb, sig)
	case crypto.Secp256k1PublicKey:
		return secp256k1.PubKeySecp256k1(k).VerifyBytes(sb, sig)
	case crypto.PublicKeyMultiSignature:
		var ms crypto.MultiSignature
		ok := true
		func() {
			defer func() {
				if recover() != nil {
					ok = false
				}
			}()
			ms = crypto.MultiSignature{}.Unmarshal(sig).(crypto.MultiSignature)
		}()
		if !ok || len(ms.Sigs) != len(k.PublicKeys) {
			return false
		}
		for i, sub := range k.PublicKeys {
			if !independentVerify(sub, sb, ms.Sigs[i]) {
				return false
			}
		}
		return true
	}
	return false
}

func sigDepthOK(pk crypto.PublicKey, limit uint64) bool {
	// number of keys in the (nested) multisig structure, the root counted once
	var count func(p crypto.PublicKey) uint64
	count = func(p crypto.PublicKey) uint64 {
		m, ok := p.(crypto.PublicKeyMultiSignature)
		if !ok {
			return 1
		}
		n := uint64(1)
		for _, s := range m.PublicKeys {
			n += count(s)
		}
		return n
	}
	if _, ok := pk.(crypto.PublicKeyMultiSignature); !ok {
		return true
	}
	return count(pk) <= limit
}

func c03msg(kind string, from sdk.Address, pk crypto.PublicKey) sdk.Msg {
	switch kind {
	case "send":
		return posTypes.MsgSend{FromAddress: from, ToAddress: chain.Addr(3), Amount: sdk.NewInt(1000)}
	case "stake":
		return posTypes.MsgStake{PubKey: pk, Value: sdk.NewInt(chain.MinStake)}
	case "unstake":
		return posTypes.MsgBeginUnstake{Address: from}
	case "unjail":
		return posTypes.MsgUnjail{ValidatorAddr: from}
	case "change_param":
		return govTypes.MsgChangeParam{FromAddress: from, ParamKey: "auth/MaxMemoCharacters", ParamVal: []byte(`"256"`)}
	case "dao_transfer":
		return govTypes.MsgDAOTransfer{FromAddress: from, ToAddress: chain.Addr(3), Amount: sdk.NewInt(5), Action: govTypes.DAOTransferString}
	case "dao_burn":
		return govTypes.MsgDAOTransfer{FromAddress: from, ToAddress: chain.Addr(3), Amount: sdk.NewInt(5), Action: govTypes.DAOBurnString}
	case "upgrade":
		return govTypes.MsgUpgrade{Address: from, Upgrade: govTypes.NewUpgrade(1000000, "9.9.9")}
	}
	panic(kind)
}

var c03msgKinds = []string{"send", "stake", "unstake", "unjail", "change_param", "dao_transfer", "dao_burn", "upgrade"}

type c03case struct {
	Name    string `json:"name"`
	Msg     string `json:"msg"`
	Signer  string `json:"signer"`
	Variant string `json:"variant"`
	KeySrc  string `json:"key_src"`  // attached | stored | absent
	Mut     string `json:"mutation"` // none chain-id msg fee-amount fee-denom memo entropy sig-flip sig-trunc
	Fee     string `json:"fee"`      // req req-1 req+1 none
	Memo    string `json:"memo"`     // empty max max+1
	Replay  string `json:"replay"`   // first after-commit same-block
	Acct    string `json:"acct"`     // override signer account: "", bal=fee-1, bal=fee, bal=fee+amount, unknown, nopk
	FeeMult string `json:"fee_mult"` // default1 type3 default0
}

func (c c03case) String() string {
	return fmt.Sprintf("%s[msg=%s signer=%s signed-by=%s key=%s mut=%s fee=%s memo=%s replay=%s acct=%s mult=%s]", c.Name, c.Msg, c.Signer, c.Variant, c.KeySrc, c.Mut, c.Fee, c.Memo, c.Replay, c.Acct, c.FeeMult)
}

// key indexes of the balance-grid accounts
const (
	kBalLow    = 20 // fee-1
	kBalFee    = 21 // exactly the fee
	kBalEnough = 22 // fee + amount
	kNoPK      = 10 // funded by a transfer, no public key stored
	kUnknown   = 11 // never funded
	kWrongPK   = 12 // genesis account whose stored public key is the key of kOtherKey
	kOtherKey  = 13
)

const (
	c03hugeSend    = 1844674407370956 // x 10000 = 2^64 + 8384
	c03hugeDefault = 922337203685478  // x 10000 = 2^63 + 4192
)

func c03cfg(mult string) chain.Config {
	cfg := baseCfg()
	big := int64(1000 * min)
	cfg.Accs = []chain.GenAcc{{Key: 0, Balance: 5 * min}, {Key: 1, Balance: 5 * min}, {Key: 2, Balance: big, Abc: 1000}, {Key: 3, Balance: big}, {Key: 4, Balance: big},
		{Key: 100, Balance: big, Abc: 1000}, {Key: 101, Balance: big}, {Key: kBalLow, Balance: 9999}, {Key: kBalFee, Balance: 10000}, {Key: kBalEnough, Balance: 11000}, {Key: kWrongPK, Balance: big, PubKeyOf: kOtherKey + 1}}
	cfg.Owner, cfg.DAOOwner = 2, 2
	switch mult {
	case "type3":
		// several keyed multipliers; the judged ones are not the first of the list
		cfg.FeeMult = &chain.FeeMult{Keys: []string{"unjail", "send", "stake_validator", "upgrade", "dao_tranfer"}, Mults: []int64{1, 3, 2, 5, 4}, Default: 1}
	case "default0":
		cfg.FeeMult = &chain.FeeMult{Default: 0}
	case "huge":
		// base fee x multiplier no longer fits 64 bits: nobody can pay, every transaction is refused
		cfg.FeeMult = &chain.FeeMult{Keys: []string{"send"}, Mults: []int64{c03hugeSend}, Default: c03hugeDefault}
	}
	return cfg
}

// prelude funds the multisig accounts and the key-less account by plain transfers.
func c03prelude(signers []c03signer) []chain.Block {
	var evs []chain.Event
	fund := func(to sdk.Address) {
		msg := posTypes.MsgSend{FromAddress: chain.Addr(4), ToAddress: to, Amount: sdk.NewInt(100 * min)}
		fee := sdk.NewCoins(sdk.NewCoin(chain.Denom, sdk.NewInt(30000)))
		raw := chain.SignTx(msg, fee, "", int64(900000+len(evs)), chain.Key(4), true)
		evs = append(evs, chain.Event{Kind: "tx", Tx: &chain.TxSpec{Msg: "raw", Raw: raw}})
	}
	for _, s := range signers {
		if !s.stored {
			fund(s.addr)
		}
	}
	fund(chain.Addr(kNoPK))
	return []chain.Block{{Events: evs}, {}}
}

func c03cases() []c03case {
	var cs []c03case
	base := c03case{Msg: "send", Signer: "ed25519", Variant: "own", KeySrc: "attached", Mut: "none", Fee: "req", Memo: "empty", Replay: "first", FeeMult: "default1"}
	signers := c03signers()
	// A. who may sign: message kind x signer kind x signing variant x key source
	for _, m := range c03msgKinds {
		for _, s := range signers {
			for _, v := range s.variants {
				srcs := []string{"attached"}
				if s.stored {
					srcs = append(srcs, "stored")
				}
				for _, src := range srcs {
					c := base
					c.Name, c.Msg, c.Signer, c.Variant, c.KeySrc = "A", m, s.kind, v, src
					cs = append(cs, c)
				}
			}
		}
	}
	// key absent and not available from state
	for _, m := range c03msgKinds {
		for _, a := range []string{"unknown", "nopk", "wrongpk"} {
			for _, src := range []string{"absent", "attached"} {
				c := base
				c.Name, c.Msg, c.Acct, c.KeySrc = "A2", m, a, src
				cs = append(cs, c)
			}
		}
	}
	// B. post-signing mutations for every message kind and signer kind (own key)
	for _, m := range c03msgKinds {
		for _, s := range signers {
			for _, mut := range []string{"chain-id", "msg", "fee-amount", "fee-denom", "memo", "memo-space", "entropy", "sig-flip", "sig-trunc", "sig-empty"} {
				c := base
				c.Name, c.Msg, c.Signer, c.Mut = "B", m, s.kind, mut
				cs = append(cs, c)
			}
		}
	}
	// C. fee x multiplier x signer kind x message kind
	for _, mult := range []string{"default1", "type3", "default0"} {
		for _, m := range c03msgKinds {
			for _, s := range signers {
				fees := []string{"req-1", "req", "req+1", "none", "other-denom-only", "other-denom+1upokt", "other-denom+req"}
				if mult == "default1" {
					fees = append(fees, "req+negative-later-denom", "negative-first-denom+req", "req+zero-later-denom")
				}
				for _, f := range fees {
					c := base
					c.Name, c.Msg, c.Signer, c.Fee, c.FeeMult = "C", m, s.kind, f, mult
					cs = append(cs, c)
				}
			}
		}
	}
	for _, m := range c03msgKinds {
		for _, s := range signers {
			for _, f := range []string{"wrapped", "base", "none"} {
				c := base
				c.Name, c.Msg, c.Signer, c.Fee, c.FeeMult = "C", m, s.kind, f, "huge"
				cs = append(cs, c)
			}
		}
	}
	// D. balance grid (send): fee-1, fee, fee+amount
	for _, a := range []string{"bal=fee-1", "bal=fee", "bal=fee+amount"} {
		for _, f := range []string{"req", "req+1"} {
			c := base
			c.Name, c.Acct, c.Fee = "D", a, f
			cs = append(cs, c)
		}
	}
	// E. memo bounds
	for _, s := range signers {
		for _, memo := range []string{"max", "max+1"} {
			c := base
			c.Name, c.Signer, c.Memo = "E", s.kind, memo
			cs = append(cs, c)
		}
	}
	// F. replays
	for _, m := range c03msgKinds {
		for _, s := range signers {
			for _, r := range []string{"after-commit", "same-block"} {
				c := base
				c.Name, c.Msg, c.Signer, c.Replay = "F", m, s.kind, r
				cs = append(cs, c)
			}
		}
	}
	return cs
}

type c03env struct {
	d       *chain.Driver
	signers map[string]c03signer
	entropy int64
}

type c03built struct {
	raw      []byte
	expect   bool   // oracle: ante must accept
	why      string // first failing condition
	fee      int64  // fee carried (upokt)
	signer   sdk.Address
	unjudged bool
}

func (e *c03env) build(c c03case, view chain.View) c03built {
	s := e.signers[c.Signer]
	addr, pkOwn := s.addr, s.pk
	signFn := s.sign
	variant := c.Variant
	switch c.Acct {
	case "wrongpk":
		// the account at this address stores another party's key; that party signs
		addr, pkOwn = chain.Addr(kWrongPK), chain.Pub(kOtherKey)
		signFn = func(v string, sb []byte) ([]byte, crypto.PublicKey) {
			return sigOf(kOtherKey, sb), chain.Pub(kOtherKey)
		}
		variant = "own"
	case "bal=fee-1", "bal=fee", "bal=fee+amount", "unknown", "nopk":
		k := map[string]int{"bal=fee-1": kBalLow, "bal=fee": kBalFee, "bal=fee+amount": kBalEnough, "unknown": kUnknown, "nopk": kNoPK}[c.Acct]
		addr, pkOwn = chain.Addr(k), chain.Pub(k)
		signFn = func(v string, sb []byte) ([]byte, crypto.PublicKey) { return sigOf(k, sb), chain.Pub(k) }
		variant = "own"
	}
	msg := c03msg(c.Msg, addr, pkOwn)
	// required fee under the multiplier in force
	base := msg.GetFee().Int64()
	mult := int64(1)
	switch c.FeeMult {
	case "type3":
		// keyed by the message type names of the wire format (send, stake_validator, unjail, upgrade,
		// dao_tranfer [sic]); decided from the kind of message the harness built, not from msg.Type()
		switch c.Msg {
		case "send":
			mult = 3
		case "stake":
			mult = 2
		case "upgrade":
			mult = 5
		case "dao_transfer", "dao_burn":
			mult = 4
		}
	case "default0":
		mult = 0
	case "huge":
		mult = c03hugeDefault
		if c.Msg == "send" {
			mult = c03hugeSend
		}
	}
	required := base * mult
	reqInt := sdk.NewInt(base).Mul(sdk.NewInt(mult)) // the requirement proper (the int64 product may have wrapped)
	feeAmt := required
	switch c.Fee {
	case "wrapped":
		// what a 64-bit product of base fee and multiplier would give
		if feeAmt = required; feeAmt <= 0 {
			feeAmt = 1
		}
	case "base":
		feeAmt = base
	case "req-1":
		feeAmt = required - 1
	case "req+1":
		feeAmt = required + 1
	case "none":
		feeAmt = 0
	}
	fee := sdk.NewCoins()
	if feeAmt > 0 {
		fee = sdk.NewCoins(sdk.NewCoin(chain.Denom, sdk.NewInt(feeAmt)))
	}
	switch c.Fee {
	case "other-denom-only":
		fee = sdk.NewCoins(sdk.NewCoin("abc", sdk.NewInt(1)))
	case "other-denom+1upokt":
		fee = sdk.NewCoins(sdk.NewCoin("abc", sdk.NewInt(1)), sdk.NewCoin(chain.Denom, sdk.NewInt(1)))
	case "other-denom+req":
		fee = sdk.NewCoins(sdk.NewCoin("abc", sdk.NewInt(1)))
		if required > 0 {
			fee = fee.Add(sdk.NewCoins(sdk.NewCoin(chain.Denom, sdk.NewInt(required))))
		}
	case "req+negative-later-denom":
		// a well-sorted fee whose second entry is negative (built literally: the constructors refuse it)
		fee = sdk.Coins{sdk.Coin{Denom: chain.Denom, Amount: sdk.NewInt(required + 1)}, sdk.Coin{Denom: "zzz", Amount: sdk.NewInt(-5000)}}
	case "negative-first-denom+req":
		fee = sdk.Coins{sdk.Coin{Denom: "abc", Amount: sdk.NewInt(-1)}, sdk.Coin{Denom: chain.Denom, Amount: sdk.NewInt(required + 1)}}
	case "req+zero-later-denom":
		fee = sdk.Coins{sdk.Coin{Denom: chain.Denom, Amount: sdk.NewInt(required + 1)}, sdk.Coin{Denom: "zzz", Amount: sdk.NewInt(0)}}
	}
	memo := ""
	switch c.Memo {
	case "max":
		memo = strings.Repeat("m", 256)
	case "max+1":
		memo = strings.Repeat("m", 257)
	}
	e.entropy++
	entropy := e.entropy
	if e.entropy%2 == 0 {
		entropy = 0x5555555555550000 + e.entropy*4 // beyond 2^53: a +1 mutation is invisible to float64 rounding
	}
	chainID := chain.ChainID
	if c.Mut == "chain-id" {
		chainID = "other-chain"
	}
	sb := chain.CanonicalSignBytes(chainID, entropy, fee, msg, memo)
	sig, pkUsed := signFn(variant, sb)
	// post-signing mutations
	switch c.Mut {
	case "msg":
		switch m := msg.(type) {
		case posTypes.MsgSend:
			m.Amount = m.Amount.AddRaw(1)
			msg = m
		case posTypes.MsgStake:
			m.Value = m.Value.AddRaw(1)
			msg = m
		case govTypes.MsgChangeParam:
			m.ParamVal = []byte(`"255"`)
			msg = m
		case govTypes.MsgDAOTransfer:
			if m.Action == govTypes.DAOBurnString {
				m.ToAddress = chain.Addr(2) // a signed field even where the handler ignores it
			} else {
				m.Amount = m.Amount.AddRaw(1)
			}
			msg = m
		case govTypes.MsgUpgrade:
			m.Upgrade.Height++
			msg = m
		default:
			// messages whose only field is the signer address: changing it changes the signer itself
			return c03built{unjudged: true}
		}
	case "fee-amount":
		fee = sdk.NewCoins(sdk.NewCoin(chain.Denom, sdk.NewInt(feeAmt+1)))
		feeAmt++
	case "fee-denom":
		fee = sdk.NewCoins(sdk.NewCoin("abc", sdk.NewInt(feeAmt)))
	case "memo":
		memo += "x"
	case "memo-space":
		memo = " " + memo + "\n" // white space is content too
	case "entropy":
		entropy++
		e.entropy++
	case "sig-flip":
		sig = append([]byte{}, sig...)
		sig[len(sig)/2] ^= 0x01
	case "sig-trunc":
		sig = sig[:len(sig)-1]
	case "sig-empty":
		sig = nil
	}
	ss := authTypes.StdSignature{Signature: sig}
	if c.KeySrc == "attached" {
		ss.PublicKey = pkUsed
	}
	tx := authTypes.NewStdTx(msg, fee, ss, memo, entropy)
	raw, err := chain.MakeCodec().MarshalBinaryLengthPrefixed(tx)
	if err != nil {
		panic(err)
	}
	out := c03built{raw: raw, signer: addr, fee: 0}
	if fee.AmountOf(chain.Denom).IsInt64() {
		out.fee = fee.AmountOf(chain.Denom).Int64()
	}
	// ---- the acceptance oracle (conditions of the statement, evaluated independently) ----
	// which key does the verifier have to use?
	var pkVerify crypto.PublicKey
	bal, accExists := view.Balances[string(addr)]
	switch c.KeySrc {
	case "attached":
		pkVerify = pkUsed
	default:
		// looked up from state: only genesis ed25519/secp256k1 accounts store a key
		if accExists && (c.Acct == "" && s.stored || strings.HasPrefix(c.Acct, "bal=") || c.Acct == "wrongpk") {
			pkVerify = pkOwn
		}
	}
	realSB := chain.CanonicalSignBytes(chain.ChainID, entropy, fee, msg, memo)
	reqCoins := reqInt
	switch {
	case len(sig) == 0:
		out.why = "empty signature"
	case len(memo) > 256:
		out.why = "memo too long"
	case pkVerify == nil:
		out.why = "no public key available"
	case !sigDepthOK(pkVerify, 7):
		out.why = "too many signature levels"
	case e.d.Index.Has(raw):
		out.why = "replay of an indexed transaction"
	case fee.AmountOf(chain.Denom).LT(reqCoins):
		out.why = "fee below required"
	case !independentVerify(pkVerify, realSB, sig):
		out.why = "signature does not verify"
	case !bytes.Equal(pkVerify.Address(), addr):
		out.why = "public key is not the signer's"
	case !accExists:
		out.why = "signer account unknown"
	case !c03feeWellFormed(fee):
		out.why = "invalid fee"
	case bal.LT(fee.AmountOf(chain.Denom)) || fee.AmountOf("abc").IsPositive() && !(c.Acct == "" && (s.kind == "ed25519" || s.kind == "secp256k1")):
		out.why = "balance below fee"
	default:
		out.expect = true
	}
	return out
}

// c03feeWellFormed: a fee is a list of coins in strictly ascending denomination order, every amount
// positive (decided here, not by Coins.IsValid).
func c03feeWellFormed(fee sdk.Coins) bool {
	for i, c := range fee {
		if !c.Amount.BigInt().IsInt64() || c.Amount.Int64() <= 0 {
			return false
		}
		if len(c.Denom) < 3 || len(c.Denom) > 16 {
			return false
		}
		if i > 0 && fee[i-1].Denom >= c.Denom {
			return false
		}
	}
	return true
}

type c03result struct {
	sig, what string
	c         c03case
}

func runC03chunk(mult string, cases []c03case, stats *c03stats) []c03result {
	var out []c03result
	signers := c03signers()
	cfg := c03cfg(mult)
	d := chain.NewDriver(cfg)
	defer d.Close()
	e := &c03env{d: d, signers: map[string]c03signer{}, entropy: 5000000}
	for _, s := range signers {
		e.signers[s.kind] = s
	}
	for _, b := range c03prelude(signers) {
		d.RunBlock(b, nil)
	}
	fail := func(c c03case, sig, f string, a ...interface{}) {
		out = append(out, c03result{"C03|" + sig, c.String() + ": " + fmt.Sprintf(f, a...), c})
	}
	for _, c := range cases {
		before := d.App.Decode(d.App.RawDump())
		b := e.build(c, before)
		if b.unjudged {
			continue
		}
		if c.Replay == "after-commit" || c.Replay == "same-block" {
			// first submission
			var evs []chain.Event
			evs = append(evs, chain.Event{Kind: "tx", Tx: &chain.TxSpec{Msg: "raw", Raw: b.raw}})
			if c.Replay == "same-block" {
				evs = append(evs, chain.Event{Kind: "tx", Tx: &chain.TxSpec{Msg: "raw", Raw: b.raw}})
			}
			r := d.RunBlock(chain.Block{Events: evs}, nil)
			stats.add("replay-first", 1)
			// (the index holds every transaction of a block with its result: replays of transactions
			// whose handler failed are judged like replays of successful ones)
			stats.add(fmt.Sprintf("replay-first-handler-failed=%v", r.Txs[0].Code != 0), 1)
			if c.Replay == "same-block" {
				// recorded, not judged: the node's index cannot contain the first copy yet
				stats.add(fmt.Sprintf("same-block-second-copy-code=%d", r.Txs[1].Code), 1)
				continue
			}
			before = d.App.Decode(d.App.RawDump())
			b.expect, b.why = false, "replay of an indexed transaction"
			if !d.Index.Has(b.raw) {
				fail(c, "harness|not-indexed", "harness error: transaction not indexed after commit")
				continue
			}
		}
		// CheckTx first (must agree with the oracle and, by C11, change nothing)
		chk := d.App.CheckTx(abci.RequestCheckTx{Tx: b.raw})
		mid := d.App.RawDump()
		if h1, h2 := d.App.RawDump().Hash(), mid.Hash(); h1 != h2 {
			_ = h1
		}
		var res chain.BlockResult
		var after chain.View
		var afterDump chain.Dump
		res = d.RunBlock(chain.Block{Events: []chain.Event{{Kind: "tx", Tx: &chain.TxSpec{Msg: "raw", Raw: b.raw}}}}, &chain.Hooks{
			AfterEvent: func(dd *chain.Driver, i int, ev chain.Event, tr *chain.TxResult) {
				afterDump = dd.App.RawDump()
				after = dd.App.Decode(afterDump)
			},
			AfterBegin: func(dd *chain.Driver, req abci.RequestBeginBlock) {
				before = dd.App.Decode(dd.App.RawDump()) // after fee distribution of the previous block
			},
		})
		stats.add("cases", 1)
		if res.Panic != "" {
			fail(c, "panic", "block panicked: %s", res.Panic)
			return out
		}
		// did the ante handler accept? observable: the fee collector gained exactly the fee
		dFee := after.FeePool.Sub(before.FeePool)
		// (runMsg attaches the "message/action" event to its result whether or not the handler
		// succeeds; results produced before the handler runs carry no events)
		anteAccepted := res.Txs[0].Code == 0 || dFee.IsPositive() || hasActionEvent(res.Txs[0])
		cls := fmt.Sprintf("msg=%s|signer=%s|signed-by=%s|key=%s|mut=%s|fee=%s|mult=%s|memo=%s|replay=%s|acct=%s", c.Msg, c.Signer, c.Variant, c.KeySrc, c.Mut, c.Fee, c.FeeMult, c.Memo, c.Replay, c.Acct)
		if anteAccepted != b.expect {
			reason := b.why
			if b.expect {
				reason = "all conditions hold"
			}
			kind := "accepted-but-must-reject|" + strings.ReplaceAll(reason, " ", "-")
			if b.expect {
				kind = "rejected-but-must-accept"
			}
			fail(c, kind+"|signer="+c.Signer+"|key="+c.KeySrc, "DeliverTx code %d (fee collector %+d): the statement requires accept=%v (%s); log %.160s [%s]", res.Txs[0].Code, dFee.Int64(), b.expect, reason, res.Txs[0].Log, cls)
			continue
		}
		if (chk.Code == 0) != b.expect {
			fail(c, "checktx-disagrees", "CheckTx code %d but the statement requires accept=%v (%s)", chk.Code, b.expect, b.why)
			continue
		}
		if b.expect {
			stats.add("accepted", 1)
			if !dFee.Equal(sdk.NewInt(b.fee)) {
				fail(c, "fee-collector-delta", "fee collector moved by %s, fee is %d", dFee, b.fee)
				continue
			}
			// the fee comes out of the signer's own balance: signer lost at least the fee, nobody else paid
			for a, bb := range before.Balances {
				ab := after.Balances[a]
				if a == string(b.signer) || a == chain.FeeAddr {
					continue
				}
				if ab.LT(bb) && a != chain.DAOAddr && a != chain.PoolAddr {
					fail(c, "someone-else-paid", "account %X lost %s although it is not the signer", a, bb.Sub(ab))
				}
			}
			if got := before.Balances[string(b.signer)].Sub(after.Balances[string(b.signer)]); got.LT(sdk.NewInt(b.fee)) {
				fail(c, "signer-did-not-pay", "signer balance moved by -%s, fee is %d", got, b.fee)
			}
		} else {
			stats.add("rejected:"+strings.ReplaceAll(b.why, " ", "-"), 1)
			// rejected by the ante handler: nothing may change at all
			pre := chain.Dump{}
			_ = pre
			if !dFee.IsZero() {
				fail(c, "fee-taken-from-rejected", "fee collector moved by %s for a transaction the ante handler must reject", dFee)
			}
			for a, bb := range before.Balances {
				if ab := after.Balances[a]; !ab.Equal(bb) {
					fail(c, "rejected-tx-moved-coins", "balance of %X changed by a transaction the ante handler must reject", a)
					break
				}
			}
		}
	}
	return out
}

func hasActionEvent(tr chain.TxResult) bool {
	for _, e := range tr.Events {
		if e.Type == "message" {
			for _, a := range e.Attributes {
				if string(a.Key) == "action" {
					return true
				}
			}
		}
	}
	return false
}

type c03stats struct {
	mu sync.Mutex
	m  map[string]int64
}

func (s *c03stats) add(k string, n int64) { s.mu.Lock(); s.m[k] += n; s.mu.Unlock() }

// C03 entry point.
// runC03sameBlock: the fee requirement follows the parameters as they are when the transaction is
// judged: a governance change of the fee multipliers binds the transactions behind it in the SAME
// block (section G of the matrix). Each block: a paying transfer, the parameter change, then
// transfers paying the old and the new requirement.
func runC03sameBlock(stats *c03stats) []c03result {
	var out []c03result
	cfg := c03cfg("default1")
	d := chain.NewDriver(cfg)
	defer d.Close()
	d.RunBlock(chain.Block{}, nil)
	base := chain.PosFees["send"]
	fm := func(sendMult, def int64) string {
		return mj(authTypes.FeeMultipliers{FeeMultis: []authTypes.FeeMultiplier{{Key: "unjail", Multiplier: 1}, {Key: "send", Multiplier: sendMult}}, Default: def})
	}
	type step struct {
		label  string
		tx     chain.TxSpec
		accept bool
	}
	send := func(fee int64) chain.TxSpec { return chain.TxSpec{Msg: "send", From: 3, To: 4, Amount: 1, Fee: fee} }
	blocks := [][]step{
		{{"send paying 1x (multiplier 1)", send(base), true},
			{"governance: send x3", chain.TxSpec{Msg: "change_param", From: 2, Key: "auth/FeeMultipliers", Val: fm(3, 1)}, true},
			{"send paying 1x after the raise", send(base), false},
			{"send paying 3x-1 after the raise", send(3*base - 1), false},
			{"send paying 3x after the raise", send(3 * base), true}},
		{{"send paying 3x (multiplier 3)", send(3 * base), true},
			{"governance: send x2", chain.TxSpec{Msg: "change_param", From: 2, Key: "auth/FeeMultipliers", Val: fm(2, 1)}, true},
			{"send paying 2x after the cut", send(2 * base), true},
			{"send paying 2x-1 after the cut", send(2*base - 1), false}},
	}
	for bi, steps := range blocks {
		var evs []chain.Event
		for i := range steps {
			evs = append(evs, chain.Event{Kind: "tx", Tx: &steps[i].tx})
		}
		var feeBefore sdk.Int
		got := make([]bool, len(steps))
		res := d.RunBlock(chain.Block{Events: evs}, &chain.Hooks{
			BeforeEvent: func(dd *chain.Driver, i int, e chain.Event) {
				feeBefore = dd.App.Decode(dd.App.RawDump()).FeePool
			},
			AfterEvent: func(dd *chain.Driver, i int, e chain.Event, tr *chain.TxResult) {
				after := dd.App.Decode(dd.App.RawDump()).FeePool
				got[i] = tr.Code == 0 || after.Sub(feeBefore).IsPositive() || hasActionEvent(*tr)
			},
		})
		for i, st := range steps {
			stats.add("cases", 1)
			stats.add("same-block-parameter-change", 1)
			if res.Panic != "" || i >= len(res.Txs) {
				out = append(out, c03result{"C03|same-block|panic", fmt.Sprintf("block %d panicked: %s", bi+1, res.Panic), c03case{Name: "G"}})
				break
			}
			if got[i] != st.accept {
				kind := "accepted-but-must-reject|fee-below-required"
				if st.accept {
					kind = "rejected-but-must-accept"
				}
				out = append(out, c03result{"C03|" + kind + "|after-parameter-change-in-the-same-block", fmt.Sprintf("block %d step %d (%s): ante accepted=%v, the fee multipliers in force at that point require accept=%v (code %d, log %.160s)", bi+1, i, st.label, got[i], st.accept, res.Txs[i].Code, res.Txs[i].Log), c03case{Name: "G", Msg: "send", Fee: st.label}})
			}
		}
	}
	return out
}

// runC03negativeFee (section H): a fee with a negative entry is no fee at all, also when the fee
// collector could "pay" it because an earlier transaction of the same block has put coins of that
// denomination there, and also when nothing is required (default multiplier 0).
func runC03negativeFee(stats *c03stats) []c03result {
	var out []c03result
	for _, mode := range []string{"default0", "default1"} {
		d := chain.NewDriver(c03cfg(mode))
		d.RunBlock(chain.Block{}, nil)
		coin := func(denom string, amt int64) sdk.Coin { return sdk.Coin{Denom: denom, Amount: sdk.NewInt(amt)} }
		raw := func(from int, fee sdk.Coins, entropy int64) chain.Event {
			msg := posTypes.MsgSend{FromAddress: chain.Addr(from), ToAddress: chain.Addr(4), Amount: sdk.NewInt(7)}
			return chain.Event{Kind: "tx", Tx: &chain.TxSpec{Msg: "raw", Raw: chain.SignTx(msg, fee, "", entropy, chain.Key(from), true)}}
		}
		type step struct {
			label  string
			ev     chain.Event
			accept bool
		}
		steps := []step{
			{"send by k3 paying 10000upokt", raw(3, sdk.Coins{coin(chain.Denom, 10000)}, 880001), true},
			{"send by k2 paying 5abc,10000upokt", raw(2, sdk.Coins{coin("abc", 5), coin(chain.Denom, 10000)}, 880002), true},
			{"send by k2 with fee 1abc,-1000upokt", raw(2, sdk.Coins{coin("abc", 1), coin(chain.Denom, -1000)}, 880003), false},
			{"send by k100 with fee -5abc,10000upokt", raw(100, sdk.Coins{coin("abc", -5), coin(chain.Denom, 10000)}, 880004), false},
			{"send by k2 with fee 1abc,0upokt", raw(2, sdk.Coins{coin("abc", 1), coin(chain.Denom, 0)}, 880005), false},
		}
		var evs []chain.Event
		for _, st := range steps {
			evs = append(evs, st.ev)
		}
		var before chain.View
		got := make([]bool, len(steps))
		moved := make([]string, len(steps))
		res := d.RunBlock(chain.Block{Events: evs}, &chain.Hooks{
			BeforeEvent: func(dd *chain.Driver, i int, e chain.Event) { before = dd.App.Decode(dd.App.RawDump()) },
			AfterEvent: func(dd *chain.Driver, i int, e chain.Event, tr *chain.TxResult) {
				after := dd.App.Decode(dd.App.RawDump())
				got[i] = tr.Code == 0 || !after.FeePool.Equal(before.FeePool) || hasActionEvent(*tr)
				moved[i] = fmt.Sprintf("fee collector %s -> %s upokt", before.FeePool, after.FeePool)
			},
		})
		for i, st := range steps {
			stats.add("cases", 1)
			stats.add("negative-fee-entries", 1)
			if res.Panic != "" || i >= len(res.Txs) {
				out = append(out, c03result{"C03|negative-fee|panic", fmt.Sprintf("block panicked: %s", res.Panic), c03case{Name: "H", FeeMult: mode}})
				break
			}
			if got[i] != st.accept {
				kind := "accepted-but-must-reject|invalid-fee"
				if st.accept {
					kind = "rejected-but-must-accept"
				}
				out = append(out, c03result{"C03|" + kind + "|collector-holds-that-denomination", fmt.Sprintf("multipliers %s, step %d (%s): ante accepted=%v, must be %v (code %d, %s, log %.160s)", mode, i, st.label, got[i], st.accept, res.Txs[i].Code, moved[i], res.Txs[i].Log), c03case{Name: "H", Msg: "send", Fee: st.label, FeeMult: mode}})
			}
		}
		d.Close()
	}
	return out
}

func C03(tier string) int {
	run := ev.NewRun("C03", tier, "exploration")
	all := c03cases()
	byMult := map[string][]c03case{}
	for _, c := range all {
		byMult[c.FeeMult] = append(byMult[c.FeeMult], c)
	}
	stats := &c03stats{m: map[string]int64{}}
	var mu sync.Mutex
	var wg sync.WaitGroup
	sem := make(chan struct{}, 16)
	var mults []string
	for m := range byMult {
		mults = append(mults, m)
	}
	sort.Strings(mults)
	for _, m := range mults {
		cs := byMult[m]
		const chunk = 40
		for i := 0; i < len(cs); i += chunk {
			j := i + chunk
			if j > len(cs) {
				j = len(cs)
			}
			wg.Add(1)
			sem <- struct{}{}
			go func(m string, part []c03case) {
				defer wg.Done()
				defer func() { <-sem }()
				for _, r := range runC03chunk(m, part, stats) {
					mu.Lock()
					run.Report(r.sig, r.what, r.c)
					mu.Unlock()
				}
			}(m, cs[i:j])
		}
	}
	wg.Wait()
	for _, r := range runC03sameBlock(stats) {
		run.Report(r.sig, r.what, r.c)
	}
	for _, r := range runC03negativeFee(stats) {
		run.Report(r.sig, r.what, r.c)
	}
	classes := 0
	for range stats.m {
		classes++
	}
	run.Set("evaluations", int64(len(all)))
	run.Set("distinct_nontrivial", int64(classes))
	run.Set("outcome_classes", stats.m)
	run.Set("rule", "union of complete sub-products: A message kind(8) x signer account kind(ed25519, secp256k1, 2-key multisig, nested multisig) x signing variant (own / other key same type / other type / foreign, swapped, short, duplicate, extra component / other multisig / single key) x key source (attached / from state); A2 unknown and key-less accounts, and an account whose stored key is another party's; B every post-signing mutation (chain id, message field, fee amount, fee denom, memo, memo white space, entropy, signature bit flip, truncation, empty) x message kind x signer kind; C fee (req-1, req, req+1, none, other denominations, a negative or zero entry behind / before the paying one) x fee-multiplier setting (default 1; keyed list unjail x1, send x3, stake x2, upgrade x5, dao x4; default 0; multipliers whose product with the base fee exceeds 2^63 and 2^64: nothing affordable may be accepted) x message kind x signer kind; D balance grid; E memo bounds; F replays (after commit: judged; same block: recorded); G fee requirement after a governance change of the multipliers earlier in the same block; H fees with a negative or zero entry delivered behind transactions that have put coins of that denomination into the fee collector (default multiplier 0 and 1). distinct_nontrivial = distinct outcome classes (accepted / rejected-by-reason) observed")
	run.Sample(c03case{Name: "A", Msg: "send", Signer: "ed25519", Variant: "other-same-type", KeySrc: "attached", Mut: "none", Fee: "req", Memo: "empty", Replay: "first", FeeMult: "default1"})
	run.Sample(c03case{Name: "C", Msg: "send", Signer: "multisig", Variant: "own", KeySrc: "attached", Mut: "none", Fee: "req-1", Memo: "empty", Replay: "first", FeeMult: "type3"})
	run.Assume("signature validity is decided by Tendermint's ed25519/secp256k1 primitives and the positional N-of-N rule; signatures are made and judged over the harness's own rendering of the documented sign bytes (key-sorted JSON of chain id, entropy, fee, memo, message sign bytes), not over the repository's StdSignBytes",
		"ante acceptance is observed through the result code and the fee-collector balance", "the tx index follows Tendermint's rule: a transaction is indexed when its block commits")
	return run.Finish()
}

func init() { Registry["C03"] = C03 }
