package checks

// C17 — governance: only the listed owner changes a parameter or moves DAO funds.
// Histories of governance transactions (matrix at depth 1, hand-over sequences at depth 2-3) on the
// real application in worker subprocesses; oracle on the raw params store, balances and supply.

import (
	"fmt"
	"regexp"
	"sort"
	"strings"
	"time"

	sdk "github.com/pokt-network/posmint/types"
	authTypes "github.com/pokt-network/posmint/x/auth/types"
	govTypes "github.com/pokt-network/posmint/x/gov/types"

	"verif/internal/chain"
)

// roles (key indexes): 4 owns every parameter except pos/MaxValidators and gov/upgrade (owned by 3); 2 is the DAO
// owner; 1 is a validator without any role; 3 doubles as "owner of a different parameter".
const (
	gOwner    = 4
	gOwner2   = 3
	gDAOOwner = 2
	gStranger = 1
)

func c17cfg() chain.Config {
	cfg := baseCfg()
	cfg.Owner, cfg.DAOOwner = gOwner, gDAOOwner
	cfg.ACLOwners = map[string]int{"pos/MaxValidators": gOwner2, "gov/upgrade": gOwner2} // (the upgrade plan and the ACL itself have different owners)
	cfg.DAOTokens = 1000
	return cfg
}

func mj(v interface{}) string { return string(chain.MakeCodec().MustMarshalJSON(v)) }

// c17values: for every parameter a well-formed value different from genesis, and one of the wrong type.
func c17values() map[string][2]string {
	acl2 := govTypes.ACL(make([]govTypes.ACLPair, 0))
	for _, k := range chain.AllParamKeys {
		acl2.SetOwner(k, chain.Addr(gOwner))
	}
	acl2.SetOwner("pos/StakeMinimum", chain.Addr(gStranger)) // hands pos/StakeMinimum over to key1
	return map[string][2]string{
		"auth/MaxMemoCharacters":       {mj(uint64(300)), `"abc"`},
		"auth/TxSigLimit":              {mj(uint64(8)), `{"a":1}`},
		"auth/FeeMultipliers":          {mj(authTypes.FeeMultipliers{Default: 2}), `"7"`},
		"gov/daoOwner":                 {mj(chain.Addr(gStranger)), `17`},
		"gov/acl":                      {mj(acl2), `"zz"`},
		"gov/upgrade":                  {mj(govTypes.NewUpgrade(5000, "2.0.0")), `[1]`},
		"pos/UnstakingTime":            {mj(4 * time.Second), `"x"`},
		"pos/MaxValidators":            {mj(uint64(9)), `"-1"`},
		"pos/StakeDenom":               {mj("upokt2"), `5`},
		"pos/StakeMinimum":             {mj(int64(min + 1)), `"1.5"`},
		"pos/ProposerRewardPercentage": {mj(int8(80)), `"300"`},
		"pos/MaxEvidenceAge":           {mj(121 * time.Second), `true`},
		"pos/SignedBlocksWindow":       {mj(int64(3)), `"w"`},
		"pos/MinSignedPerWindow":       {mj(sdk.NewDecWithPrec(6, 1)), `"a.b"`},
		"pos/DowntimeJailDuration":     {mj(3 * time.Second), `{}`},
		"pos/SlashFractionDoubleSign":  {mj(sdk.NewDecWithPrec(6, 2)), `[]`},
		"pos/SlashFractionDowntime":    {mj(sdk.NewDecWithPrec(2, 2)), `"1/2"`},
	}
}

// paramProto returns a fresh pointer of the registered type of a parameter key.
func paramProto(key string) interface{} {
	switch key {
	case "auth/MaxMemoCharacters", "auth/TxSigLimit", "pos/MaxValidators":
		return new(uint64)
	case "auth/FeeMultipliers":
		return new(authTypes.FeeMultipliers)
	case "gov/daoOwner":
		return new(sdk.Address)
	case "gov/acl":
		return new(govTypes.ACL)
	case "gov/upgrade":
		return new(govTypes.Upgrade)
	case "pos/UnstakingTime", "pos/MaxEvidenceAge", "pos/DowntimeJailDuration":
		return new(time.Duration)
	case "pos/StakeDenom":
		return new(string)
	case "pos/StakeMinimum", "pos/SignedBlocksWindow":
		return new(int64)
	case "pos/ProposerRewardPercentage":
		return new(int8)
	case "pos/MinSignedPerWindow", "pos/SlashFractionDoubleSign", "pos/SlashFractionDowntime":
		return new(sdk.Dec)
	}
	return nil
}

// c17wellFormed decides, with the application codec, whether val decodes into the parameter's type.
func c17wellFormed(key, val string) (ok bool) {
	p := paramProto(key)
	if p == nil {
		return false
	}
	defer func() {
		if recover() != nil {
			ok = false
		}
	}()
	if !c17addressesWellFormed(key, val) {
		return false
	}
	return chain.MakeCodec().UnmarshalJSON([]byte(val), p) == nil
}

var c17addrField = regexp.MustCompile(`"address"\s*:\s*"([^"]*)"`)

// c17addressesWellFormed: the addresses a governance value carries (the DAO owner; the owners an ACL
// names) are written as 40 hexadecimal digits, or left empty. Decided here on the text, not by the
// address parser of the code under test.
func c17addressesWellFormed(key, val string) bool {
	okAddr := func(s string) bool {
		if len(s) == 0 {
			return true
		}
		if len(s) != 40 {
			return false
		}
		for _, c := range s {
			if !(c >= '0' && c <= '9' || c >= 'a' && c <= 'f' || c >= 'A' && c <= 'F') {
				return false
			}
		}
		return true
	}
	switch key {
	case "gov/daoOwner":
		if len(val) >= 2 && val[0] == '"' && val[len(val)-1] == '"' && !strings.ContainsAny(val[1:len(val)-1], `"\\`) {
			return okAddr(val[1 : len(val)-1])
		}
	case "gov/acl":
		for _, m := range c17addrField.FindAllStringSubmatch(val, -1) {
			if !okAddr(m[1]) {
				return false
			}
		}
	}
	return true
}

func resolvedVal(t chain.TxSpec, before chain.View) string {
	switch t.Val {
	case "@same":
		return before.Params[t.Key]
	case "@empty":
		return ""
	}
	return t.Val
}

func c17partial() map[string]string {
	return map[string]string{
		"gov/upgrade":         `{"type":"gov/upgrade","value":{"Height":"77","Version":5}}`,
		"auth/FeeMultipliers": `{"fee_multiplier":[{"key":"send","multiplier":"9"}],"default":"x"}`,
		"gov/acl":             `{"type":"gov/non_map_acl","value":[{"acl_key":"gov/acl","address":"` + chain.Addr(gStranger).String() + `"},{"acl_key":5}]}`,
	}
}

func c17alphabet(full bool) []Choice {
	var cs []Choice
	vals := c17values()
	keys := append([]string{}, chain.AllParamKeys...)
	sort.Strings(keys)
	senders := []int{gOwner, gOwner2, gDAOOwner, gStranger}
	for _, k := range keys {
		for _, s := range senders {
			kinds := []string{"new"}
			if full {
				kinds = []string{"new", "same", "malformed", "wrongtype", "empty", "partial"}
			}
			for _, kind := range kinds {
				v := vals[k][0]
				switch kind {
				case "same":
					v = "@same" // replaced by the currently stored bytes at run time
				case "malformed":
					v = `{"unterminated`
				case "wrongtype":
					v = vals[k][1]
				case "empty":
					v = "@empty"
				case "partial":
					// a struct value whose first field is well formed and a later field has the wrong type
					pv, ok := c17partial()[k]
					if !ok {
						continue
					}
					v = pv
				}
				cs = append(cs, txB(fmt.Sprintf("change(%s,by=k%d,%s)", k, s, kind), chain.TxSpec{Msg: "change_param", From: s, Key: k, Val: v}))
			}
		}
	}
	if full {
		for _, k := range []string{"pos/Unknown", "nosuch/Key", "nokey", "gov/", "/acl"} {
			for _, s := range senders {
				cs = append(cs, txB(fmt.Sprintf("change(%s,by=k%d,new)", k, s), chain.TxSpec{Msg: "change_param", From: s, Key: k, Val: `"1"`}))
			}
		}
		// keys with a third path element: no ACL entry names them, whoever owns their first two
		// elements; the value is well formed for the parameter the last element names
		for _, kv := range [][2]string{{"gov/upgrade/acl", vals["gov/acl"][0]}, {"auth/MaxMemoCharacters/TxSigLimit", vals["auth/TxSigLimit"][0]}, {"pos/MaxValidators/StakeMinimum", vals["pos/StakeMinimum"][0]}, {"pos/MaxValidators/MaxValidators", vals["pos/MaxValidators"][0]}} {
			for _, s := range senders {
				cs = append(cs, txB(fmt.Sprintf("change(%s,by=k%d,new)", kv[0], s), chain.TxSpec{Msg: "change_param", From: s, Key: kv[0], Val: kv[1]}))
			}
		}
	}
	// the DAO owner cleared (JSON null) by the owner of that parameter: afterwards nobody is the DAO owner
	cs = append(cs, txB(fmt.Sprintf("change(gov/daoOwner,by=k%d,null)", gOwner), chain.TxSpec{Msg: "change_param", From: gOwner, Key: "gov/daoOwner", Val: `null`}))
	cs = append(cs, txB(fmt.Sprintf("change(gov/daoOwner,by=k%d,empty string)", gOwner), chain.TxSpec{Msg: "change_param", From: gOwner, Key: "gov/daoOwner", Val: `""`}))
	// addresses of the wrong length inside an otherwise well-formed value (21 / 19 bytes as the new DAO
	// owner; an ACL entry naming a 25-byte / 19-byte owner): malformed values, nothing may change
	longHex := func(n int) string { return strings.Repeat("ab", n) }
	for _, n := range []int{21, 19} {
		cs = append(cs, txB(fmt.Sprintf("change(gov/daoOwner,by=k%d,%d-byte address)", gOwner, n), chain.TxSpec{Msg: "change_param", From: gOwner, Key: "gov/daoOwner", Val: `"` + longHex(n) + `"`}))
	}
	for _, n := range []int{25, 19} {
		v := strings.Replace(vals["gov/acl"][0], chain.Addr(gStranger).String(), longHex(n), 1)
		cs = append(cs, txB(fmt.Sprintf("change(gov/acl,by=k%d,an entry with a %d-byte address)", gOwner, n), chain.TxSpec{Msg: "change_param", From: gOwner, Key: "gov/acl", Val: v}))
	}
	// a value whose fields are the zero values (an encoder may leave such fields out; what is stored
	// afterwards is still the value that was sent, not a mixture with the previous one)
	cs = append(cs, txB(fmt.Sprintf("change(auth/FeeMultipliers,by=k%d,default multiplier 0)", gOwner), chain.TxSpec{Msg: "change_param", From: gOwner, Key: "auth/FeeMultipliers", Val: mj(authTypes.FeeMultipliers{Default: 0})}))
	cs = append(cs, txB(fmt.Sprintf("change(auth/FeeMultipliers,by=k%d,one entry, default 0)", gOwner), chain.TxSpec{Msg: "change_param", From: gOwner, Key: "auth/FeeMultipliers", Val: mj(authTypes.FeeMultipliers{FeeMultis: []authTypes.FeeMultiplier{{Key: "send", Multiplier: 2}}, Default: 0})}))
	// an ACL that lists a key twice with different addresses (accepted by ACL.Validate): everybody
	// the list does not name for a key is still a stranger for it
	dup := govTypes.ACL(make([]govTypes.ACLPair, 0))
	for _, k := range chain.AllParamKeys {
		dup.SetOwner(k, chain.Addr(gOwner))
	}
	dup = append(dup, govTypes.ACLPair{Key: "pos/StakeMinimum", Addr: chain.Addr(gStranger)}, govTypes.ACLPair{Key: "gov/acl", Addr: chain.Addr(gOwner2)})
	cs = append(cs, txB(fmt.Sprintf("change(gov/acl,by=k%d,duplicated keys)", gOwner), chain.TxSpec{Msg: "change_param", From: gOwner, Key: "gov/acl", Val: mj(dup)}))
	for _, s := range senders {
		cs = append(cs, txB(fmt.Sprintf("upgrade(by=k%d)", s), chain.TxSpec{Msg: "upgrade", From: s, Height: 7000, Val: "3.0.0"}))
	}
	for _, s := range []int{gDAOOwner, gStranger, gOwner} {
		for _, amt := range []int64{-1, 1, 1000, 1001} {
			cs = append(cs, txB(fmt.Sprintf("dao_transfer(by=k%d,%d)", s, amt), chain.TxSpec{Msg: "dao_transfer", From: s, To: 0, Amount: amt}))
			cs = append(cs, txB(fmt.Sprintf("dao_burn(by=k%d,%d)", s, amt), chain.TxSpec{Msg: "dao_burn", From: s, Amount: amt}))
		}
		// beyond the balance, to an address that has no account yet (nothing may remain of the attempt)
		cs = append(cs, txB(fmt.Sprintf("dao_transfer(by=k%d,to a fresh address,1001)", s), chain.TxSpec{Msg: "dao_transfer", From: s, To: 14, Amount: 1001}))
		// to the zero-length address, for which no account exists yet
		cs = append(cs, txB(fmt.Sprintf("dao_transfer(by=k%d,to the empty address,100)", s), chain.TxSpec{Msg: "dao_transfer", From: s, To: chain.EmptyIndex, Amount: 100}))
		// a transfer from the DAO account to the DAO account itself moves nothing
		cs = append(cs, txB(fmt.Sprintf("dao_transfer(by=k%d,to the DAO account,250)", s), chain.TxSpec{Msg: "dao_transfer", From: s, To: chain.DAOIndex, Amount: 250}))
		if full {
			cs = append(cs, txB(fmt.Sprintf("dao_unknown_action(by=k%d)", s), chain.TxSpec{Msg: "dao_transfer", From: s, To: 0, Amount: 1, Val: "dao_steal"}))
			cs = append(cs, txB(fmt.Sprintf("dao_transfer(by=k%d,0)", s), chain.TxSpec{Msg: "dao_transfer", From: s, To: 0, Amount: 0}))
		}
	}
	return cs
}

// RunGovHistory executes the history; every transaction is judged by the C17 oracle.
func RunGovHistory(cfg chain.Config, prelude, blocks []chain.Block) HistResult {
	res := HistResult{}
	d := chain.NewDriver(cfg)
	defer d.Close()
	var outcome []string
	report := func(sig, what string) {
		res.Findings = append(res.Findings, Finding{"C17", "C17|" + sig, what})
	}
	var before chain.View
	var beforeDump chain.Dump
	hk := &chain.Hooks{
		BeforeEvent: func(dd *chain.Driver, i int, e chain.Event) {
			beforeDump = dd.App.RawDump()
			before = dd.App.Decode(beforeDump)
		},
		AfterEvent: func(dd *chain.Driver, i int, e chain.Event, tr *chain.TxResult) {
			res.Transitions++
			if e.Kind != "tx" {
				return
			}
			afterDump := dd.App.RawDump()
			after := dd.App.Decode(afterDump)
			h := afterDump.Hash()
			res.Hashes = append(res.Hashes, uint64(h[0])|uint64(h[1])<<8|uint64(h[2])<<16|uint64(h[3])<<24|uint64(h[4])<<32|uint64(h[5])<<40|uint64(h[6])<<48|uint64(h[7])<<56)
			t := *e.Tx
			sender := string(chain.Addr(t.From))
			ok := tr.Code == 0
			outcome = append(outcome, fmt.Sprintf("%s:%d", t.Msg, tr.Code))
			if ok {
				res.Nontrivial = true
			}
			// the fee: did the ante handler pass? (sender lost exactly the fee to the collector)
			fee := after.FeePool.Sub(before.FeePool)
			// --- parameters ---
			var changed []string
			for k, v := range after.Params {
				if before.Params[k] != v {
					changed = append(changed, k)
				}
			}
			for k := range before.Params {
				if _, still := after.Params[k]; !still {
					changed = append(changed, k)
				}
			}
			sort.Strings(changed)
			var acl govTypes.ACL
			if raw, okk := before.Params["gov/acl"]; okk {
				chain.MakeCodec().MustUnmarshalJSON([]byte(raw), &acl)
			}
			target := ""
			switch t.Msg {
			case "change_param":
				target = t.Key
			case "upgrade":
				target = "gov/upgrade"
			}
			// the addresses the stored list names for exactly this key (looked up here, not through the
			// repository's ACL.GetOwner). A list naming two different addresses for one key is accepted
			// by ACL.Validate; the statement presupposes one owner, so for such a key a message from one
			// of the named addresses is not judged for authorisation (everybody else still is).
			named := map[string]bool{}
			var firstNamed sdk.Address
			for _, pair := range acl {
				if pair.Key == target && target != "" && pair.Addr != nil {
					if len(named) == 0 {
						firstNamed = pair.Addr
					}
					named[string(pair.Addr)] = true
				}
			}
			isOwner := named[sender]
			ambiguous := isOwner && len(named) > 1
			role := "stranger"
			if isOwner {
				role = "owner"
			}
			if ambiguous {
				role = "one-of-several-named-owners"
			}
			for _, k := range changed {
				switch {
				case k != target:
					report(fmt.Sprintf("%s|other-parameter-changed|by-%s", t.Msg, role), fmt.Sprintf("%s at height %d changed parameter %s (target %q)", t, dd.Height+1, k, target))
				case !isOwner:
					report(fmt.Sprintf("%s|changed-by-non-owner", t.Msg), fmt.Sprintf("%s at height %d changed %s but the ACL owner of that key is %X", t, dd.Height+1, k, firstNamed))
				case !ok:
					report(fmt.Sprintf("%s|changed-but-result-not-ok", t.Msg), fmt.Sprintf("%s at height %d changed %s but returned code %d", t, dd.Height+1, k, tr.Code))
				}
			}
			// a value that does not decode into the parameter's type must change nothing, whoever sends it
			if t.Msg == "change_param" && len(changed) > 0 && !c17wellFormed(t.Key, resolvedVal(t, before)) {
				report("change_param|malformed-value-changed-state|by-"+role, fmt.Sprintf("%s at height %d: the value does not decode into the type of %s, yet stored parameters changed: %v (%q -> %q)", t, dd.Height+1, t.Key, changed, before.Params[t.Key], after.Params[t.Key]))
			}
			// an accepted change stores the value that was sent (and not, say, the old one)
			if t.Msg == "change_param" && ok && isOwner {
				sent := resolvedVal(t, before)
				if c17wellFormed(t.Key, sent) && normJSON([]byte(after.Params[t.Key])) != normJSON([]byte(sent)) {
					report("change_param|accepted-but-another-value-stored", fmt.Sprintf("%s at height %d returned code 0 but %s now holds %.120s, the message carried %.120s", t, dd.Height+1, t.Key, after.Params[t.Key], sent))
				}
			}
			if target != "" && !isOwner && ok {
				report(fmt.Sprintf("%s|non-owner-accepted", t.Msg), fmt.Sprintf("%s at height %d by a non-owner returned code 0", t, dd.Height+1))
			}
			// --- balances and supply ---
			dao := after.DAO.Sub(before.DAO)
			supply := after.Supply.Sub(before.Supply)
			isDAO := t.Msg == "dao_transfer" || t.Msg == "dao_burn"
			daoOwner := ""
			if raw, okk := before.Params["gov/daoOwner"]; okk {
				var a sdk.Address
				chain.MakeCodec().MustUnmarshalJSON([]byte(raw), &a)
				daoOwner = string(a)
			}
			expect := map[string]sdk.Int{} // expected balance deltas besides the fee
			wantSupply := sdk.ZeroInt()
			if isDAO && ok {
				amt := sdk.NewInt(t.Amount)
				action := t.Msg
				if t.Val != "" {
					action = t.Val
				}
				switch {
				case sender != daoOwner:
					report("dao|non-owner-accepted", fmt.Sprintf("%s at height %d by a non-DAO-owner returned code 0", t, dd.Height+1))
				case t.Amount <= 0:
					report("dao|non-positive-amount-accepted", fmt.Sprintf("%s at height %d returned code 0", t, dd.Height+1))
				case before.DAO.LT(amt):
					report("dao|beyond-balance-accepted", fmt.Sprintf("%s at height %d returned code 0 although the DAO holds %s", t, dd.Height+1, before.DAO))
				case action == "dao_transfer":
					expect[chain.DAOAddr] = amt.Neg()
					if prev, has := expect[string(chain.Addr(t.To))]; has {
						expect[string(chain.Addr(t.To))] = prev.Add(amt) // the DAO account as its own recipient
					} else {
						expect[string(chain.Addr(t.To))] = amt
					}
				case action == "dao_burn":
					expect[chain.DAOAddr] = amt.Neg()
					wantSupply = amt.Neg()
				default:
					report("dao|unknown-action-accepted", fmt.Sprintf("%s at height %d returned code 0", t, dd.Height+1))
				}
			}
			if !supply.Equal(wantSupply) {
				report(fmt.Sprintf("%s|supply-moved|ok=%v", t.Msg, ok), fmt.Sprintf("%s at height %d (code %d): supply moved by %s, expected %s", t, dd.Height+1, tr.Code, supply, wantSupply))
			}
			if !ok && !dao.IsZero() {
				report(fmt.Sprintf("%s|dao-funds-moved-by-rejected-message", t.Msg), fmt.Sprintf("%s at height %d (code %d): DAO balance moved by %s", t, dd.Height+1, tr.Code, dao))
			}
			all := map[string]bool{}
			for a := range before.Balances {
				all[a] = true
			}
			for a := range after.Balances {
				all[a] = true
			}
			for a := range all {
				b0, b1 := sdk.ZeroInt(), sdk.ZeroInt()
				if x, okk := before.Balances[a]; okk {
					b0 = x
				}
				if x, okk := after.Balances[a]; okk {
					b1 = x
				}
				want := sdk.ZeroInt()
				if x, okk := expect[a]; okk {
					want = x
				}
				if a == sender {
					want = want.Sub(fee)
				}
				if a == chain.FeeAddr {
					want = want.Add(fee)
				}
				if !b1.Sub(b0).Equal(want) {
					report(fmt.Sprintf("%s|balance-moved|ok=%v", t.Msg, ok), fmt.Sprintf("%s at height %d (code %d): balance of %s moved by %s, expected %s", t, dd.Height+1, tr.Code, shortAddr(a), b1.Sub(b0), want))
				}
			}
			// --- every other store key ---
			for _, d0 := range beforeDump.Diff(afterDump) {
				if strings.HasPrefix(d0, "auth/01") && !ok {
					// a rejected message: only the signer's account and the fee collector may have been written
					hexA := strings.ToUpper(fmt.Sprintf("%X", []byte(sender)))
					hexF := strings.ToUpper(fmt.Sprintf("%X", []byte(chain.FeeAddr)))
					up := strings.ToUpper(d0)
					if !strings.Contains(up, hexA) && !strings.Contains(up, hexF) {
						report(fmt.Sprintf("%s|rejected-message-touched-another-account", t.Msg), fmt.Sprintf("%s at height %d (code %d): %s", t, dd.Height+1, tr.Code, d0))
					}
				}
				if strings.HasPrefix(d0, "params/") || strings.HasPrefix(d0, "auth/") {
					continue // judged above
				}
				report(fmt.Sprintf("%s|other-store-key-changed", t.Msg), fmt.Sprintf("%s at height %d: %s", t, dd.Height+1, d0))
			}
		},
	}
	all := append(append([]chain.Block{}, prelude...), blocks...)
	for _, b := range all {
		if d.Dead || len(res.Findings) > 0 {
			break
		}
		br := d.RunBlock(b, hk)
		res.Transitions += 3
		if br.Panic != "" {
			res.Died = br.Panic
			// a parameter change that later halts the chain is the owner's doing; not an authorisation question
			break
		}
	}
	res.Outcome = strings.Join(outcome, ",")
	return res
}

func init() {
	registerHist(&HistProp{
		ID: "C17",
		Scenarios: func(tier string) []Scenario {
			full := c17alphabet(true)
			small := c17alphabet(false)
			scs := []Scenario{
				{Name: "gov-matrix", Cfg: c17cfg(), Alphabet: full, K: 1, D: 1, Tail: 1},
				{Name: "gov-handover-2", Cfg: c17cfg(), Alphabet: small, K: 2, D: 2, Tail: 0},
				// the hand-over and the next message in the SAME block (the new list binds at once)
				{Name: "gov-handover-same-block", Cfg: c17cfg(), Alphabet: c17sameBlock(small), K: 1, D: 1, Tail: 1},
			}
			if tier == "thorough" {
				scs = append(scs, Scenario{Name: "gov-handover-2-full", Cfg: c17cfg(), Alphabet: full, K: 2, D: 2},
					Scenario{Name: "gov-handover-3", Cfg: c17cfg(), Alphabet: c17handover(), K: 3, D: 3})
			}
			return scs
		},
		Run: func(sc *Scenario, blocks []chain.Block) HistResult {
			return RunGovHistory(sc.Cfg, sc.Prelude, blocks)
		},
		Rule:   "matrix (depth 1): every parameter key (17 registered + 5 unregistered/ill-formed + 4 with a third path element) x sender (owner, owner of another parameter, DAO owner, stranger) x value (new, identical, malformed JSON, wrong type, empty), MsgUpgrade x sender, DAO transfer/burn/unknown action x sender x amount (-1, 0, 1, balance, balance+1); hand-over histories (depth 2-3): all pairs/triples of these transactions in consecutive blocks (ACL and DAO ownership change hands in between), and every message of the reduced alphabet directly after each of 3 hand-overs in the same block; non-trivial = a governance message succeeded",
		QuickS: 240, ThoroughS: 1500,
		Assume: []string{"the oracle reads the ACL and DAO owner from the raw params store before each message", "a chain halt caused by an authorised but ill-advised parameter value is not an authorisation failure and ends the history without a verdict"},
	})
}

// c17sameBlock: blocks of two transactions, an ownership hand-over (ACL replaced / DAO owner
// replaced / parameter handed to a stranger) followed by one message of the alphabet.
func c17sameBlock(alpha []Choice) []Choice {
	vals := c17values()
	heads := []chain.TxSpec{
		{Msg: "change_param", From: gOwner, Key: "gov/acl", Val: vals["gov/acl"][0]},
		{Msg: "change_param", From: gOwner, Key: "gov/daoOwner", Val: vals["gov/daoOwner"][0]},
	}
	// an ACL that takes everything away from the current owner
	acl3 := govTypes.ACL(make([]govTypes.ACLPair, 0))
	for _, k := range chain.AllParamKeys {
		acl3.SetOwner(k, chain.Addr(gStranger))
	}
	heads = append(heads, chain.TxSpec{Msg: "change_param", From: gOwner, Key: "gov/acl", Val: mj(acl3)})
	var cs []Choice
	for hi, h := range heads {
		for _, c := range alpha {
			if len(c.Block.Events) != 1 || c.Block.Events[0].Tx == nil {
				continue
			}
			h := h
			cs = append(cs, multiB(fmt.Sprintf("[handover#%d(%s); %s]", hi, h.Key, c.Label), txE(h), c.Block.Events[0]))
		}
	}
	return cs
}

// c17handover: reduced alphabet for depth-3 ownership hand-overs.
func c17handover() []Choice {
	var cs []Choice
	for _, c := range c17alphabet(false) {
		l := c.Label
		if strings.Contains(l, "gov/acl") || strings.Contains(l, "gov/daoOwner") || strings.Contains(l, "pos/StakeMinimum") || strings.Contains(l, "pos/MaxValidators") || strings.HasPrefix(l, "dao_transfer") && strings.Contains(l, ",1)") || strings.HasPrefix(l, "upgrade") {
			cs = append(cs, c)
		}
	}
	return cs
}
