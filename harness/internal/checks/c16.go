package checks

// C16 — store wrappers are transparent: prefix isolation, exact gas, faithful trace.
// Exhaustive operation programs against a map model (prefix), an independent cost table (gas) and
// the decoded JSON trace (trace); all stackings of the wrappers for result transparency.

import (
	"bytes"
	"encoding/base64"
	"encoding/json"
	"fmt"
	"math"
	"strings"
	"sync"

	"github.com/pokt-network/posmint/store/cachekv"
	"github.com/pokt-network/posmint/store/dbadapter"
	"github.com/pokt-network/posmint/store/gaskv"
	"github.com/pokt-network/posmint/store/prefix"
	"github.com/pokt-network/posmint/store/tracekv"
	stypes "github.com/pokt-network/posmint/store/types"
	dbm "github.com/tendermint/tm-db"

	"verif/internal/ev"
)

type sop struct {
	kind       string // get has set del iter
	key, val   []byte
	start, end []byte
	asc        bool
}

func (o sop) String() string {
	switch o.kind {
	case "set":
		return fmt.Sprintf("set(%q,%q)", o.key, o.val)
	case "iter":
		d := "asc"
		if !o.asc {
			d = "desc"
		}
		return fmt.Sprintf("iter(%s,%s,%s)", bstr(o.start), bstr(o.end), d)
	}
	return fmt.Sprintf("%s(%q)", o.kind, o.key)
}

func bstr(b []byte) string {
	if b == nil {
		return "nil"
	}
	return fmt.Sprintf("%q", b)
}

// opResult is the observable result of one op.
type opResult struct {
	val   []byte
	has   bool
	pairs []kvPair
	panic string
}

func (r opResult) String() string {
	if r.panic != "" {
		return "panic:" + r.panic
	}
	return fmt.Sprintf("val=%s has=%v pairs=[%s]", bstr(r.val), r.has, pairsString(r.pairs))
}

func sameResult(a, b opResult) bool {
	return (a.panic == "") == (b.panic == "") && bytes.Equal(a.val, b.val) && (a.val == nil) == (b.val == nil) && a.has == b.has && pairsEqual(a.pairs, b.pairs)
}

func applySop(st stypes.KVStore, o sop) (res opResult) {
	defer func() {
		if r := recover(); r != nil {
			res.panic = fmt.Sprint(r)
		}
	}()
	switch o.kind {
	case "get":
		res.val = st.Get(o.key)
	case "has":
		res.has = st.Has(o.key)
	case "set":
		st.Set(o.key, append([]byte{}, o.val...))
	case "del":
		st.Delete(o.key)
	case "iter":
		var it kvIter
		if o.asc {
			it = st.Iterator(o.start, o.end)
		} else {
			it = st.ReverseIterator(o.start, o.end)
		}
		ps, e := drain(it, 64)
		if e != "" {
			res.panic = e
		}
		res.pairs = ps
	}
	return
}

// modelSop applies o to a map model of a plain KVStore.
// applySopRaw performs o without recovering (the caller inspects the panic value).
func applySopRaw(st stypes.KVStore, o sop) {
	switch o.kind {
	case "get":
		st.Get(o.key)
	case "has":
		st.Has(o.key)
	case "set":
		st.Set(o.key, append([]byte{}, o.val...))
	case "del":
		st.Delete(o.key)
	case "iter":
		var it kvIter
		if o.asc {
			it = st.Iterator(o.start, o.end)
		} else {
			it = st.ReverseIterator(o.start, o.end)
		}
		for n := 0; it.Valid() && n < 64; n++ {
			it.Next()
		}
		it.Close()
	}
}

func modelSop(m kvMap, o sop) (res opResult) {
	switch o.kind {
	case "get":
		res.val = m[string(o.key)]
	case "has":
		_, res.has = m[string(o.key)]
	case "set":
		m[string(o.key)] = append([]byte{}, o.val...)
	case "del":
		delete(m, string(o.key))
	case "iter":
		res.pairs = m.iterate(o.start, o.end, o.asc)
	}
	return
}

func dumpStore(st stypes.KVStore) []kvPair {
	ps, _ := drain(st.Iterator(nil, nil), 256)
	return ps
}

type c16 struct {
	run      *ev.Run
	mu       sync.Mutex
	eval     int64
	kinds    map[string]int64
	ops      int64               // operations executed on the real wrappers
	nontriv  int64               // programs (distinct by construction) that observe after mutating
	outcomes map[uint64]struct{} // distinct (part, results, final content) hashes
}

// note records one executed program: its operation count, whether it is non-trivial, its outcome.
func (c *c16) note(part string, ops []sop, prog []int, runs int64, outcome string) {
	mutated, nt := false, false
	for _, i := range prog {
		switch ops[i].kind {
		case "set", "del":
			mutated = true
		default:
			if mutated {
				nt = true
			}
		}
	}
	h := hashStr(part + "|" + outcome)
	c.mu.Lock()
	c.ops += runs * int64(len(prog))
	if nt {
		c.nontriv++
	}
	c.outcomes[h] = struct{}{}
	c.mu.Unlock()
}

func (c *c16) fail(sig, what string, replay interface{}) {
	c.mu.Lock()
	defer c.mu.Unlock()
	c.run.Report(sig, what, replay)
}

func (c *c16) count(kind string, n int64) {
	c.mu.Lock()
	c.eval += n
	c.kinds[kind] += n
	c.mu.Unlock()
}

// ---------------------------------------------------------------------------------------------
// prefix isolation

func prefixBoundary(p []byte) [][]byte {
	var out [][]byte
	add := func(b []byte) {
		for _, o := range out {
			if bytes.Equal(o, b) {
				return
			}
		}
		out = append(out, b)
	}
	cat := func(a []byte, b ...byte) []byte { return append(append([]byte{}, a...), b...) }
	add(cat(p))       // the prefix itself (exposed as the empty key)
	add(cat(p, 0x00)) // first proper extension
	add(cat(p, 'k'))  // middle
	add(cat(p, 0xFF)) // last one-byte extension
	add(cat(p, 0xFF, 0xFF))
	if e := stypes.PrefixEndBytes(p); e != nil {
		add(e) // first key after the prefix range
	}
	if len(p) > 0 {
		add(cat(p[:len(p)-1])) // shorter (not prefixed)
		if p[len(p)-1] > 0 {
			pred := cat(p)
			pred[len(pred)-1]--
			add(cat(pred, 0xFF)) // just before the range
		}
		add(cat(p[:len(p)-1], 0xFF, 0xFF, 0xFF)) // far after (or inside when p ends in FF...)
	}
	// drop empty keys (MemDB does not accept nil/empty keys as set targets in this alphabet)
	var res [][]byte
	for _, k := range out {
		if len(k) > 0 {
			res = append(res, k)
		}
	}
	return res
}

func prefixOps() []sop {
	keys := [][]byte{{}, {0x00}, {'k'}, {0xFF}}
	var ops []sop
	for _, k := range keys {
		ops = append(ops, sop{kind: "get", key: k}, sop{kind: "has", key: k}, sop{kind: "set", key: k, val: []byte("v")}, sop{kind: "del", key: k})
	}
	bounds := [][]byte{nil, {}, {0x00}, {'k'}, {0xFF}}
	for _, s := range bounds {
		for _, e := range bounds {
			ops = append(ops, sop{kind: "iter", start: s, end: e, asc: true}, sop{kind: "iter", start: s, end: e, asc: false})
		}
	}
	return ops
}

func (c *c16) prefixCheck(tier string) {
	prefixes := [][]byte{{0x01}, {0x01, 0xFF}, {0xFF}, {0xFF, 0xFF}, {0x00}, {}}
	ops := prefixOps()
	L := 2
	if tier == "thorough" {
		L = 3
	}
	var wg sync.WaitGroup
	sem := make(chan struct{}, 16)
	for _, p := range prefixes {
		bkeys := prefixBoundary(p)
		// preloads: every subset of at most 4 boundary keys (quick, L=2); full/empty/singletons (L=3)
		var preloads [][]int
		n := len(bkeys)
		for mask := 0; mask < 1<<uint(n); mask++ {
			var idx []int
			for i := 0; i < n; i++ {
				if mask&(1<<uint(i)) != 0 {
					idx = append(idx, i)
				}
			}
			if L == 2 && len(idx) <= 4 || L == 3 && (len(idx) <= 1 || len(idx) == n) {
				preloads = append(preloads, idx)
			}
		}
		for _, pl := range preloads {
			wg.Add(1)
			sem <- struct{}{}
			go func(p []byte, pl []int) {
				defer wg.Done()
				defer func() { <-sem }()
				c.prefixPrograms(p, bkeys, pl, ops, L)
			}(p, pl)
		}
	}
	wg.Wait()
}

func (c *c16) prefixPrograms(p []byte, bkeys [][]byte, pl []int, ops []sop, L int) {
	prog := make([]int, L)
	var n int64
	var rec func(pos int)
	rec = func(pos int) {
		if pos == L {
			n++
			c.prefixRun(p, bkeys, pl, ops, prog)
			return
		}
		for i := range ops {
			prog[pos] = i
			rec(pos + 1)
		}
	}
	rec(0)
	c.count("prefix", n)
}

func (c *c16) prefixRun(p []byte, bkeys [][]byte, pl []int, ops []sop, prog []int) {
	parent := dbadapter.Store{DB: dbm.NewMemDB()}
	model := kvMap{}
	for _, i := range pl {
		v := []byte(fmt.Sprintf("p%d", i))
		parent.Set(bkeys[i], v)
		model[string(bkeys[i])] = v
	}
	// the prefix slice is handed over with spare capacity, as types/param.go builds subspace prefixes
	// (append on an over-allocated name): the store must not let appends to it alias each other
	pp := append(make([]byte, 0, len(p)+16), p...)
	st := prefix.NewStore(parent, pp)
	for step, oi := range prog {
		o := ops[oi]
		got := applySop(st, o)
		// model: the prefix view of the parent model
		view := kvMap{}
		for k, v := range model {
			if bytes.HasPrefix([]byte(k), p) {
				view[k[len(p):]] = v
			}
		}
		want := modelSop(view, o)
		// write back the view's mutations to the parent model
		switch o.kind {
		case "set":
			model[string(p)+string(o.key)] = append([]byte{}, o.val...)
		case "del":
			delete(model, string(p)+string(o.key))
		}
		if o.kind == "iter" && o.start != nil && o.end != nil && bytes.Compare(o.start, o.end) > 0 {
			// "Start must be less than end, or the Iterator is invalid": only emptiness is required
			if len(got.pairs) != 0 || got.panic != "" {
				want = opResult{}
			} else {
				continue
			}
		}
		if !sameResult(got, want) {
			c.fail("C16|prefix|"+o.kind, fmt.Sprintf("prefix %X, parent preloaded with %v, program %s: step %d %s = {%s}, model {%s}", p, keysOf(bkeys, pl), progString(ops, prog), step, o, got, want),
				map[string]interface{}{"prefix": fmt.Sprintf("%X", p), "preload": keysOf(bkeys, pl), "program": progString(ops, prog)})
			return
		}
		// parent content (inside and outside the prefix) byte-identical to the model
		if pd := dumpStore(parent); !pairsEqual(pd, model.iterate(nil, nil, true)) {
			c.fail("C16|prefix|parent-content|"+o.kind, fmt.Sprintf("prefix %X, program %s: after step %d %s the parent holds [%s], model [%s]", p, progString(ops, prog), step, o, pairsString(pd), pairsString(model.iterate(nil, nil, true))),
				map[string]interface{}{"prefix": fmt.Sprintf("%X", p), "preload": keysOf(bkeys, pl), "program": progString(ops, prog)})
			return
		}
	}
	c.note("prefix", ops, prog, 1, fmt.Sprintf("%X|%s", p, pairsString(dumpStore(parent))))
}

func keysOf(bkeys [][]byte, pl []int) []string {
	var out []string
	for _, i := range pl {
		out = append(out, fmt.Sprintf("%X", bkeys[i]))
	}
	return out
}

func progString(ops []sop, prog []int) string {
	var s []string
	for _, i := range prog {
		s = append(s, ops[i].String())
	}
	return strings.Join(s, "; ")
}

// ---------------------------------------------------------------------------------------------
// gas

type charge struct {
	amt  uint64
	desc string
}

// gasOps: program alphabet for the gas and trace checks. "open"/"next"/"val" drive one iterator by hand.
type gop struct {
	kind       string // get has set del iter
	key, val   []byte
	start, end []byte
	asc        bool
}

func gasAlphabet() []sop {
	a, b, cc := []byte("a"), []byte("b"), []byte("c")
	return []sop{
		{kind: "get", key: a}, {kind: "get", key: cc}, {kind: "has", key: a}, {kind: "has", key: cc},
		{kind: "set", key: a, val: []byte("xyz")}, {kind: "set", key: cc, val: []byte{}}, {kind: "set", key: b, val: []byte("0123456789")},
		{kind: "del", key: a}, {kind: "del", key: cc},
		// a binary key whose base64 form uses both alphabet-specific characters ('+' and '/')
		{kind: "set", key: []byte{0xFB, 0xFF, 0xFE}, val: []byte{0xFF}}, {kind: "get", key: []byte{0xFB, 0xFF, 0xFE}},
		{kind: "iter", asc: true}, {kind: "iter", asc: false}, {kind: "iter", start: b, asc: true}, {kind: "iter", end: b, asc: false}, {kind: "iter", start: cc, end: cc, asc: true},
	}
}

// modelCharges lists the charges the documented cost table prescribes for o on model m (before o).
func modelCharges(m kvMap, o sop, cfg stypes.GasConfig) []charge {
	switch o.kind {
	case "get":
		return []charge{{cfg.ReadCostFlat, stypes.GasReadCostFlatDesc}, {cfg.ReadCostPerByte * uint64(len(m[string(o.key)])), stypes.GasReadPerByteDesc}}
	case "has":
		return []charge{{cfg.HasCost, stypes.GasHasDesc}}
	case "set":
		return []charge{{cfg.WriteCostFlat, stypes.GasWriteCostFlatDesc}, {cfg.WriteCostPerByte * uint64(len(o.val)), stypes.GasWritePerByteDesc}}
	case "del":
		return []charge{{cfg.DeleteCost, stypes.GasDeleteDesc}}
	case "iter":
		// charged at creation if valid, and at every Next while valid, with the current value's length
		ps := m.iterate(o.start, o.end, o.asc)
		var cs []charge
		if len(ps) > 0 {
			cs = append(cs, charge{cfg.ReadCostPerByte * uint64(len(ps[0].V)), stypes.GasValuePerByteDesc}, charge{cfg.IterNextCostFlat, stypes.GasIterNextCostFlatDesc})
		}
		for _, p := range ps { // drain calls Next once per element
			cs = append(cs, charge{cfg.ReadCostPerByte * uint64(len(p.V)), stypes.GasValuePerByteDesc}, charge{cfg.IterNextCostFlat, stypes.GasIterNextCostFlatDesc})
		}
		return cs
	}
	return nil
}

func gasPreload() (stypes.KVStore, kvMap) {
	parent := dbadapter.Store{DB: dbm.NewMemDB()}
	m := kvMap{"a": []byte("pa"), "b": []byte("pbbbb")}
	for k, v := range m {
		parent.Set([]byte(k), v)
	}
	return parent, m
}

// runGas runs prog under a meter; returns per-op results, consumed after each op, and the panic
// value (with op index) if any.
func runGas(ops []sop, prog []int, meter stypes.GasMeter) (results []opResult, consumed []uint64, panicAt int, panicVal interface{}) {
	results, consumed, panicAt, panicVal, _ = runGasContent(ops, prog, meter)
	return
}

// runGasContent additionally returns the content of the wrapped store when the run ended.
func runGasContent(ops []sop, prog []int, meter stypes.GasMeter) (results []opResult, consumed []uint64, panicAt int, panicVal interface{}, content []kvPair) {
	parent, _ := gasPreload()
	defer func() { content = dumpStore(parent) }()
	st := gaskv.NewStore(parent, meter, stypes.KVGasConfig())
	panicAt = -1
	for i, oi := range prog {
		var res opResult
		func() {
			defer func() {
				if r := recover(); r != nil {
					panicAt, panicVal = i, r
				}
			}()
			o := ops[oi]
			switch o.kind {
			case "get":
				res.val = st.Get(o.key)
			case "has":
				res.has = st.Has(o.key)
			case "set":
				st.Set(o.key, append([]byte{}, o.val...))
			case "del":
				st.Delete(o.key)
			case "iter":
				var it kvIter
				if o.asc {
					it = st.Iterator(o.start, o.end)
				} else {
					it = st.ReverseIterator(o.start, o.end)
				}
				for n := 0; it.Valid() && n < 64; n++ {
					res.pairs = append(res.pairs, kvPair{append([]byte(nil), it.Key()...), append([]byte(nil), it.Value()...)})
					it.Next()
				}
				it.Close()
			}
		}()
		if panicAt >= 0 {
			return
		}
		results = append(results, res)
		consumed = append(consumed, meter.GasConsumed())
	}
	return
}

func (c *c16) gasCheck(tier string) {
	ops := gasAlphabet()
	L := 3
	if tier == "thorough" {
		L = 4
	}
	cfg := stypes.KVGasConfig()
	var wg sync.WaitGroup
	sem := make(chan struct{}, 16)
	for first := range ops {
		wg.Add(1)
		sem <- struct{}{}
		go func(first int) {
			defer wg.Done()
			defer func() { <-sem }()
			prog := make([]int, L)
			prog[0] = first
			var n int64
			var rec func(pos int)
			rec = func(pos int) {
				if pos == L {
					n += c.gasProgram(ops, prog, cfg)
					return
				}
				for i := range ops {
					prog[pos] = i
					rec(pos + 1)
				}
			}
			rec(1)
			c.count("gas", n)
		}(first)
	}
	wg.Wait()
}

func (c *c16) gasProgram(ops []sop, prog []int, cfg stypes.GasConfig) int64 {
	rep := map[string]interface{}{"program": progString(ops, prog)}
	// model pass: results and the charge list
	_, m := gasPreload()
	var wantRes []opResult
	var charges [][]charge
	for _, oi := range prog {
		charges = append(charges, modelCharges(m, ops[oi], cfg))
		wantRes = append(wantRes, modelSop(m, ops[oi]))
	}
	// 1. unlimited: same results as the unwrapped store, consumed = documented sum after each op
	res, cons, pAt, pv := runGas(ops, prog, stypes.NewInfiniteGasMeter())
	if pAt >= 0 {
		c.fail("C16|gas|panic-unlimited", fmt.Sprintf("program %s: op %d panicked under an infinite meter: %v", progString(ops, prog), pAt, pv), rep)
		return 1
	}
	var cum uint64
	var bounds []uint64 // cumulative cost after every single charge
	var boundOp []int
	var boundDesc []string
	for i := range prog {
		for _, ch := range charges[i] {
			cum += ch.amt
			bounds = append(bounds, cum)
			boundOp = append(boundOp, i)
			boundDesc = append(boundDesc, ch.desc)
		}
		if !sameResult(res[i], wantRes[i]) {
			c.fail("C16|gas|result|"+ops[prog[i]].kind, fmt.Sprintf("program %s: op %d through gaskv = {%s}, unwrapped model {%s}", progString(ops, prog), i, res[i], wantRes[i]), rep)
			return 1
		}
		if cons[i] != cum {
			c.fail("C16|gas|consumed|"+ops[prog[i]].kind, fmt.Sprintf("program %s: after op %d (%s) consumed %d, documented cost table gives %d", progString(ops, prog), i, ops[prog[i]], cons[i], cum), rep)
			return 1
		}
	}
	runs := int64(1)
	// 2. every limit one below / exactly at / one above each cumulative charge boundary
	limits := map[uint64]bool{}
	for _, b := range bounds {
		if b > 0 {
			limits[b-1] = true
		}
		limits[b] = true
		limits[b+1] = true
	}
	for lim := range limits {
		runs++
		// expected crossing: first charge boundary with cumulative > lim
		cross := -1
		for j, b := range bounds {
			if b > lim {
				cross = j
				break
			}
		}
		meter := stypes.NewGasMeter(lim)
		res, _, pAt, pv, content := runGasContent(ops, prog, meter)
		if cross < 0 {
			if pAt >= 0 {
				c.fail("C16|gas|spurious-out-of-gas", fmt.Sprintf("program %s with limit %d (total cost %d): op %d raised %v", progString(ops, prog), lim, cum, pAt, pv), rep)
				return runs
			}
			continue
		}
		og, isOOG := pv.(stypes.ErrorOutOfGas)
		switch {
		case pAt < 0:
			c.fail("C16|gas|missing-out-of-gas", fmt.Sprintf("program %s with limit %d: no out-of-gas although the cost reaches %d at op %d", progString(ops, prog), lim, bounds[cross], boundOp[cross]), rep)
			return runs
		case pAt != boundOp[cross] || !isOOG:
			c.fail("C16|gas|out-of-gas-at-wrong-op", fmt.Sprintf("program %s with limit %d: %v raised at op %d, the crossing charge (%s, cumulative %d) belongs to op %d", progString(ops, prog), lim, pv, pAt, boundDesc[cross], bounds[cross], boundOp[cross]), rep)
			return runs
		case og.Descriptor != boundDesc[cross]:
			c.fail("C16|gas|out-of-gas-descriptor", fmt.Sprintf("program %s with limit %d: out-of-gas descriptor %q, the crossing charge is %q", progString(ops, prog), lim, og.Descriptor, boundDesc[cross]), rep)
			return runs
		}
		for i := 0; i < pAt; i++ {
			if !sameResult(res[i], wantRes[i]) {
				c.fail("C16|gas|result-before-out-of-gas", fmt.Sprintf("program %s with limit %d: op %d = {%s}, model {%s}", progString(ops, prog), lim, i, res[i], wantRes[i]), rep)
				return runs
			}
		}
		// the operation that crosses the limit is not performed: the wrapped store holds what the
		// operations before it left
		_, mb := gasPreload()
		for i := 0; i < pAt; i++ {
			modelSop(mb, ops[prog[i]])
		}
		if !pairsEqual(content, mb.iterate(nil, nil, true)) {
			c.fail("C16|gas|effect-of-rejected-op|"+ops[prog[pAt]].kind, fmt.Sprintf("program %s with limit %d: op %d (%s) raised out-of-gas (%s) but the wrapped store holds [%s]; the operations before it leave [%s]", progString(ops, prog), lim, pAt, ops[prog[pAt]], og.Descriptor, pairsString(content), pairsString(mb.iterate(nil, nil, true))), rep)
			return runs
		}
		// once over the limit the meter refuses everything: the operations after the crossing one raise
		// out-of-gas as well and leave the wrapped store alone
		if pAt+1 < len(prog) {
			parent2, _ := gasPreload()
			m2 := stypes.NewGasMeter(lim)
			st2 := gaskv.NewStore(parent2, m2, stypes.KVGasConfig())
			for i, oi := range prog {
				var pv2 interface{}
				func() {
					defer func() { pv2 = recover() }()
					applySopRaw(st2, ops[oi])
				}()
				if i > pAt && len(modelCharges(mb, ops[oi], cfg)) > 0 { // (an iterator over an empty range is free)
					if _, oog := pv2.(stypes.ErrorOutOfGas); !oog {
						c.fail("C16|gas|accepted-after-out-of-gas|"+ops[oi].kind, fmt.Sprintf("program %s with limit %d: op %d raised out-of-gas, yet op %d (%s) on the same meter was not refused (%v); consumed %d", progString(ops, prog), lim, pAt, i, ops[oi], pv2, m2.GasConsumed()), rep)
						return runs
					}
				}
			}
			if !pairsEqual(dumpStore(parent2), mb.iterate(nil, nil, true)) {
				c.fail("C16|gas|effect-after-out-of-gas", fmt.Sprintf("program %s with limit %d: operations issued after the out-of-gas at op %d changed the wrapped store to [%s]", progString(ops, prog), lim, pAt, pairsString(dumpStore(parent2))), rep)
				return runs
			}
		}
		if meter.GasConsumed() != bounds[cross] {
			c.fail("C16|gas|consumed-at-out-of-gas", fmt.Sprintf("program %s with limit %d: consumed %d after out-of-gas, crossing charge brings the total to %d", progString(ops, prog), lim, meter.GasConsumed(), bounds[cross]), rep)
			return runs
		}
	}
	// 3. overflow: meter pre-charged so that the running total passes MaxUint64 at each boundary
	for j, b := range bounds {
		if j > 0 && bounds[j-1] == b {
			continue // zero charge cannot overflow by itself
		}
		for _, mk := range []func() stypes.GasMeter{stypes.NewInfiniteGasMeter, func() stypes.GasMeter { return stypes.NewGasMeter(math.MaxUint64) }} {
			runs++
			meter := mk()
			meter.ConsumeGas(math.MaxUint64-b+1, "pre") // total after charge j = MaxUint64+1 => overflow exactly there
			_, _, pAt, pv := runGas(ops, prog, meter)
			ov, isOv := pv.(stypes.ErrorGasOverflow)
			if pAt != boundOp[j] || !isOv || ov.Descriptor != boundDesc[j] {
				// an earlier zero-amount boundary with the same cumulative value is equivalent
				c.fail("C16|gas|overflow", fmt.Sprintf("program %s, meter pre-charged to MaxUint64-%d: expected ErrorGasOverflow{%s} at op %d, got %v at op %d", progString(ops, prog), b-1, boundDesc[j], boundOp[j], pv, pAt), rep)
				return runs
			}
		}
	}
	c.note("gas", ops, prog, runs, fmt.Sprint(res)+fmt.Sprint(cons))
	return runs
}

// ---------------------------------------------------------------------------------------------
// trace

type traceLine struct {
	Operation string                 `json:"operation"`
	Key       string                 `json:"key"`
	Value     string                 `json:"value"`
	Metadata  map[string]interface{} `json:"metadata"`
}

func (c *c16) traceCheck(tier string) {
	ops := gasAlphabet()
	L := 3
	if tier == "thorough" {
		L = 4
	}
	prog := make([]int, L)
	var n int64
	var rec func(pos int)
	rec = func(pos int) {
		if pos == L {
			n++
			c.traceProgram(ops, prog)
			return
		}
		for i := range ops {
			prog[pos] = i
			rec(pos + 1)
		}
	}
	rec(0)
	c.count("trace", n)
}

func (c *c16) traceProgram(ops []sop, prog []int) {
	rep := map[string]interface{}{"program": progString(ops, prog)}
	parent, m := gasPreload()
	var buf bytes.Buffer
	tc := stypes.TraceContext(map[string]interface{}{"blockHeight": 64})
	st := tracekv.NewStore(parent, &buf, tc)
	type exp struct{ op, k, v string }
	var want []exp
	b64 := base64.StdEncoding.EncodeToString
	for i, oi := range prog {
		o := ops[oi]
		switch o.kind {
		case "get":
			want = append(want, exp{"read", b64(o.key), b64(m[string(o.key)])})
		case "set":
			want = append(want, exp{"write", b64(o.key), b64(o.val)})
		case "del":
			want = append(want, exp{"delete", b64(o.key), ""})
		case "iter":
			for _, p := range m.iterate(o.start, o.end, o.asc) {
				want = append(want, exp{"iterKey", b64(p.K), ""}, exp{"iterValue", "", b64(p.V)})
			}
		}
		wantRes := modelSop(m, o)
		got := applySop(st, o)
		if !sameResult(got, wantRes) {
			c.fail("C16|trace|result|"+o.kind, fmt.Sprintf("program %s: op %d through tracekv = {%s}, unwrapped model {%s}", progString(ops, prog), i, got, wantRes), rep)
			return
		}
	}
	var lines []traceLine
	for _, ln := range strings.Split(strings.TrimSpace(buf.String()), "\n") {
		if ln == "" {
			continue
		}
		var tl traceLine
		if err := json.Unmarshal([]byte(ln), &tl); err != nil {
			c.fail("C16|trace|undecodable-line", fmt.Sprintf("program %s: trace line %q is not JSON: %v", progString(ops, prog), ln, err), rep)
			return
		}
		lines = append(lines, tl)
	}
	// "has" has no operation name in the trace format; its lines (if any) are not judged
	var got []exp
	for _, l := range lines {
		if l.Operation == "has" {
			continue
		}
		got = append(got, exp{l.Operation, l.Key, l.Value})
		if fmt.Sprint(l.Metadata["blockHeight"]) != "64" {
			c.fail("C16|trace|metadata", fmt.Sprintf("program %s: trace line lacks the tracing context: %v", progString(ops, prog), l.Metadata), rep)
			return
		}
	}
	if fmt.Sprint(got) != fmt.Sprint(want) {
		c.fail("C16|trace|lines", fmt.Sprintf("program %s: trace %v, operations performed %v", progString(ops, prog), got, want), rep)
	}
	c.note("trace", ops, prog, 1, fmt.Sprint(got))
}

// ---------------------------------------------------------------------------------------------
// stackings: result transparency of every permitted order of the wrappers

func (c *c16) stackCheck(tier string) {
	type layer string
	perms := [][]layer{}
	all := []layer{"prefix", "gas", "trace", "cache"}
	var permute func(cur []layer, rest []layer)
	permute = func(cur, rest []layer) {
		if len(cur) > 0 {
			perms = append(perms, append([]layer{}, cur...))
		}
		for i := range rest {
			nr := append(append([]layer{}, rest[:i]...), rest[i+1:]...)
			permute(append(cur, rest[i]), nr)
		}
	}
	permute(nil, all)
	ops := []sop{
		{kind: "get", key: []byte("k")}, {kind: "get", key: []byte{0xFF}}, {kind: "has", key: []byte("k")},
		{kind: "set", key: []byte("k"), val: []byte("v")}, {kind: "set", key: []byte{0xFF}, val: []byte("w")}, {kind: "del", key: []byte("k")}, {kind: "del", key: []byte{0xFF}},
		{kind: "iter", asc: true}, {kind: "iter", asc: false}, {kind: "iter", start: []byte("k"), asc: true}, {kind: "iter", end: []byte{0xFF}, asc: false},
	}
	L := 3
	pfx := []byte{0x01, 0xFF}
	var n int64
	type permMode struct {
		perm     []layer
		byMethod bool
	}
	var permModes []permMode
	for _, perm := range perms {
		permModes = append(permModes, permMode{perm, false})
		for _, l := range perm {
			if l == "cache" {
				permModes = append(permModes, permMode{perm, true})
				break
			}
		}
	}
	how := func(m bool) string {
		if m {
			return " built with CacheWrap/CacheWrapWithTrace"
		}
		return ""
	}
	for _, pm := range permModes {
		perm, byMethod := pm.perm, pm.byMethod
		prog := make([]int, L)
		var rec func(pos int)
		rec = func(pos int) {
			if pos < L {
				for i := range ops {
					prog[pos] = i
					rec(pos + 1)
				}
				return
			}
			n++
			parent := dbadapter.Store{DB: dbm.NewMemDB()}
			model := kvMap{}
			for _, k := range [][]byte{{0x01, 0xFE, 0xFF}, {0x01, 0xFF}, {0x01, 0xFF, 'k'}, {0x01, 0xFF, 0xFF}, {0x02}, {'k'}} {
				parent.Set(k, []byte("p"))
				model[string(k)] = []byte("p")
			}
			var st stypes.KVStore = parent
			hasPrefix := false
			var caches []stypes.CacheKVStore
			var tb bytes.Buffer
			var meter stypes.GasMeter
			var wantGas uint64
			for li := 0; li < len(perm); li++ { // perm[0] is the innermost wrapper
				l := perm[li]
				byMethod = pm.byMethod
				switch st.(type) {
				case *gaskv.Store, *tracekv.Store:
					byMethod = false // "cannot CacheWrap a GasKVStore / a Store": these wrappers refuse by design
				}
				if byMethod && l == "trace" && li+1 < len(perm) && perm[li+1] == "cache" {
					// the wrapper's own method builds cache-over-trace in one step (what cachemulti uses)
					cs := st.CacheWrapWithTrace(&tb, nil).(stypes.CacheKVStore)
					caches = append(caches, cs)
					st = cs
					li++
					continue
				}
				if byMethod && l == "cache" {
					cs := st.CacheWrap().(stypes.CacheKVStore)
					caches = append(caches, cs)
					st = cs
					continue
				}
				switch l {
				case "prefix":
					st = prefix.NewStore(st, append(make([]byte, 0, 32), pfx...))
					hasPrefix = true
				case "gas":
					meter = stypes.NewInfiniteGasMeter()
					st = gaskv.NewStore(st, meter, stypes.KVGasConfig())
				case "trace":
					st = tracekv.NewStore(st, &tb, nil)
				case "cache":
					cs := cachekv.NewStore(st)
					caches = append(caches, cs)
					st = cs
				}
			}
			p := []byte{}
			if hasPrefix {
				p = pfx
			}
			lpos := map[layer]int{}
			for i, l := range perm {
				lpos[l] = i + 1
			}
			// the prefix wrapper sits above the gas / trace wrapper: what those see is what the prefix
			// store does to its parent ("can neither read nor write any other key")
			traceBelowPrefix := lpos["trace"] > 0 && lpos["prefix"] > lpos["trace"]
			// gas is comparable with the cost table when no cache above the gas wrapper absorbs accesses
			gasBelowPrefix := lpos["gas"] > 0 && lpos["prefix"] > lpos["gas"] && !(lpos["cache"] > lpos["gas"])
			for step, oi := range prog {
				o := ops[oi]
				view := kvMap{}
				for k, v := range model {
					if bytes.HasPrefix([]byte(k), p) {
						view[k[len(p):]] = v
					}
				}
				if gasBelowPrefix {
					for _, ch := range modelCharges(view, o, stypes.KVGasConfig()) {
						wantGas += ch.amt
					}
				}
				want := modelSop(view, o)
				switch o.kind {
				case "set":
					model[string(p)+string(o.key)] = append([]byte{}, o.val...)
				case "del":
					delete(model, string(p)+string(o.key))
				}
				got := applySop(st, o)
				if !sameResult(got, want) {
					c.fail("C16|stack|result", fmt.Sprintf("stack %v (innermost first)%s, program %s: step %d %s = {%s}, model {%s}", perm, how(byMethod), progString(ops, prog), step, o, got, want),
						map[string]interface{}{"by_method": byMethod, "stack": perm, "program": progString(ops, prog)})
					return
				}
			}
			if gasBelowPrefix && meter.GasConsumed() != wantGas {
				c.fail("C16|stack|gas-through-prefix", fmt.Sprintf("stack %v%s, program %s: the gas wrapper below the prefix store consumed %d, the cost table gives %d for these operations on the prefix view", perm, how(pm.byMethod), progString(ops, prog), meter.GasConsumed(), wantGas),
					map[string]interface{}{"by_method": pm.byMethod, "stack": perm, "program": progString(ops, prog)})
				return
			}
			if traceBelowPrefix {
				for _, ln := range strings.Split(strings.TrimSpace(tb.String()), "\n") {
					var tl traceLine
					if ln == "" || json.Unmarshal([]byte(ln), &tl) != nil || tl.Key == "" {
						continue
					}
					k, err := base64.StdEncoding.DecodeString(tl.Key)
					if err == nil && !bytes.HasPrefix(k, pfx) {
						c.fail("C16|stack|foreign-key-accessed-through-prefix", fmt.Sprintf("stack %v%s, program %s: the trace wrapper below the prefix store recorded %s of key %X, which does not start with the prefix %X", perm, how(pm.byMethod), progString(ops, prog), tl.Operation, k, pfx),
							map[string]interface{}{"by_method": pm.byMethod, "stack": perm, "program": progString(ops, prog)})
						return
					}
				}
			}
			for _, cs := range caches {
				cs.Write()
			}
			c.note("stack", ops, prog, 1, fmt.Sprint(perm, byMethod)+pairsString(dumpStore(parent)))
			if pd := dumpStore(parent); !pairsEqual(pd, model.iterate(nil, nil, true)) {
				c.fail("C16|stack|parent-content", fmt.Sprintf("stack %v%s, program %s: parent holds [%s], model [%s]", perm, how(byMethod), progString(ops, prog), pairsString(pd), pairsString(model.iterate(nil, nil, true))),
					map[string]interface{}{"by_method": byMethod, "stack": perm, "program": progString(ops, prog)})
			}
		}
		rec(0)
	}
	c.count("stack", n)
}

// C16 entry point.
func C16(tier string) int {
	run := ev.NewRun("C16", tier, "model_checking")
	c := &c16{run: run, kinds: map[string]int64{}, outcomes: map[uint64]struct{}{}}
	c.prefixCheck(tier)
	c.gasCheck(tier)
	c.traceCheck(tier)
	c.stackCheck(tier)
	run.Set("programs", c.eval)
	run.Set("evaluations", c.eval)
	run.Set("states", int64(len(c.outcomes)))
	run.Set("transitions", c.ops)
	run.Set("traces_validated_against_impl", c.eval)
	run.Set("distinct_nontrivial", c.nontriv)
	run.Set("by_part", c.kinds)
	run.Set("rule", "prefix: every program of L ops (4 keys incl. empty/00/FF, 25 start/end pairs x 2 directions) on prefixes {01, 01FF, FF, FFFF, 00, empty} over parents preloaded with subsets of the boundary key set; gas: every program of L ops, re-run under every limit one below/at/above every cumulative charge and pre-charged to overflow at every charge, both meter kinds; trace: every program of L ops, decoded JSON lines compared with the operation list; stackings: every ordered selection of {prefix,gas,trace,cache}, built with the constructors and with the wrappers' own CacheWrap / CacheWrapWithTrace methods, every program of 3 ops; where the prefix store sits above the gas / trace wrapper, the gas consumed equals the cost table applied to the prefix view and no traced key lies outside the prefix. evaluations = program runs (a gas program counts once per limit); states = distinct outcomes (part, results of every operation, final content of the wrapped store); transitions = operations executed on the real wrappers; distinct_nontrivial = programs (distinct by construction within their part and configuration) in which a get/has/iteration follows a set/delete")
	run.Sample(map[string]interface{}{"part": "prefix", "prefix": "01FF", "preload": []string{"01FF", "01FFFF", "02"}, "program": "set(\"\\xff\",\"v\"); iter(nil,nil,desc)"})
	run.Sample(map[string]interface{}{"part": "gas", "program": "get(\"a\"); iter(nil,nil,asc); set(\"b\",\"0123456789\")", "limits": "each cumulative charge -1/0/+1"})
	run.Assume("shipped KVGasConfig is the documented cost table; iterators are charged at creation-if-valid and at every Next-while-valid with the current value's length (gaskv documentation)",
		"Has has no operation name in the trace format and is not judged", "iterators with start > end are only required to be empty")
	return run.Finish()
}

func init() { Registry["C16"] = C16 }
