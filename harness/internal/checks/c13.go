package checks

// C13 — a crash during Commit never corrupts the store. Every crash state of every commit of every
// write history: prefixes of the observed write log closed under commutation of units that touch
// disjoint substores (the substore commit order is Go map order and not under anybody's control).

import (
	"bytes"
	"fmt"
	"github.com/pokt-network/posmint/store/rootmulti"
	"runtime"
	"sort"
	"strings"
	"sync"
	"sync/atomic"
	"time"

	abci "github.com/tendermint/tendermint/abci/types"

	"verif/internal/chain"

	"verif/internal/crashdb"
	"verif/internal/ev"
)

type crashState struct {
	name  string
	units []crashdb.Unit
}

// crashStates builds every crash state reachable under any substore order from the logged units of
// one Commit. Units are grouped by the substore prefix they touch; the commit-info unit (prefix "")
// must be last in the log. Disjointness of the groups is checked on the log.
func crashStates(log []crashdb.Unit) ([]crashState, string) {
	if len(log) == 0 {
		return nil, "commit wrote nothing"
	}
	groups := map[string][]crashdb.Unit{}
	var order []string
	for i, u := range log {
		ps := u.Prefixes()
		if len(ps) != 1 {
			return nil, fmt.Sprintf("unit %d touches %d key spaces %v: commutation argument does not apply", i, len(ps), ps)
		}
		if ps[0] != "" && len(groups[""]) > 0 {
			return nil, fmt.Sprintf("substore unit at position %d after a multistore-level unit", i)
		}
		if _, ok := groups[ps[0]]; !ok {
			order = append(order, ps[0])
		}
		groups[ps[0]] = append(groups[ps[0]], u)
	}
	final := groups[""]
	if len(final) == 0 {
		return nil, "no multistore-level (commit-info) unit"
	}
	var subs []string
	for _, p := range order {
		if p != "" {
			subs = append(subs, p)
		}
	}
	sort.Strings(subs)
	var states []crashState
	n := len(subs)
	for mask := 0; mask < 1<<uint(n); mask++ {
		var done []crashdb.Unit
		var names []string
		for i, p := range subs {
			if mask&(1<<uint(i)) != 0 {
				done = append(done, groups[p]...)
				names = append(names, strings.TrimSuffix(strings.TrimPrefix(p, "s/k:"), "/"))
			}
		}
		states = append(states, crashState{"done={" + strings.Join(names, ",") + "}", done})
		// one further substore interrupted between its units
		for i, p := range subs {
			if mask&(1<<uint(i)) != 0 {
				continue
			}
			g := groups[p]
			for cut := 1; cut < len(g); cut++ {
				st := crashState{fmt.Sprintf("done={%s}+%s:%d/%d", strings.Join(names, ","), strings.TrimSuffix(strings.TrimPrefix(p, "s/k:"), "/"), cut, len(g)), append(append([]crashdb.Unit{}, done...), g[:cut]...)}
				states = append(states, st)
			}
		}
	}
	// the multistore-level units (normally one batch: commit-info + latest) one after the other
	for cut := 1; cut < len(final); cut++ {
		states = append(states, crashState{fmt.Sprintf("all-substores+multistore:%d/%d", cut, len(final)), append([]crashdb.Unit{}, log[:len(log)-len(final)+cut]...)})
	}
	// everything including the last multistore-level unit
	all := append([]crashdb.Unit{}, log...)
	states = append(states, crashState{"complete", all})
	return states, ""
}

type c13stats struct{ histories, commits, crashStates, partial int64 }

func runC13(h rmHist, st *c13stats) (out []*c12result) {
	defer func() {
		if r := recover(); r != nil {
			out = append(out, &c12result{fmt.Sprintf("C13|panic|pruning=(%d,%d)", h.Pruning[0], h.Pruning[1]), h.String() + ": " + fmt.Sprintf("panic: %.300v", r)})
		}
	}()
	fail := func(sig, f string, a ...interface{}) []*c12result {
		out = append(out, &c12result{"C13|" + sig, h.String() + ": " + fmt.Sprintf(f, a...)})
		return out
	}
	db := crashdb.New()
	n0 := h.N
	if h.Reopen == 5 {
		// the last substore is mounted for the first time before commit 2 (its own version numbers
		// then lag one behind the multistore's); crashes are enumerated from commit 3 on - its
		// first commit falls under the first-commit class already recorded
		n0 = h.N - 1
	}
	s, err := rmOpen(db, n0, h.Pruning, -1)
	if err != nil {
		return fail("open-fresh", "cannot open fresh store: %v", err)
	}
	models := make([]kvMap, h.N)
	for i := range models {
		models[i] = kvMap{}
	}
	snaps := map[int64][]kvMap{0: make([]kvMap, h.N)}
	for i := range snaps[0] {
		snaps[0][i] = kvMap{}
	}
	// the uninterrupted run, with the write log of every commit
	type commitRec struct {
		pre  map[string][]byte
		log  []crashdb.Unit
		hash []byte
	}
	var recs []commitRec
	lazy := h.Reopen == 2
	for vi, cs := range h.Choice {
		v := int64(vi + 1)
		if (h.Reopen == 1 || h.Reopen == 2) && v > 1 {
			// the node was restarted since its last commit
			if s, err = rmOpenLazy(db, h.N, h.Pruning, -1, lazy); err != nil {
				return fail("reopen-between-commits", "reopening before commit %d fails: %v", v, err)
			}
		}
		if h.Reopen == 4 {
			// restarted, and the pruning options are handed over after the stores were loaded
			// (rootmulti.SetPruning passes them on to the loaded substores)
			if s, err = rmOpenSetAfter(db, h.N, h.Pruning); err != nil {
				return fail("reopen-between-commits", "reopening before commit %d fails: %v", v, err)
			}
		}
		if h.Reopen == 5 && v == 2 {
			if s, err = rmOpenLazy(db, h.N, h.Pruning, -1, false); err != nil {
				return fail("reopen-with-added-store", "reopening with one more substore before commit %d fails: %v", v, err)
			}
		}
		for i, c := range cs {
			if h.Reopen == 5 && v == 1 && i == h.N-1 {
				continue
			}
			rmApplyChoice(s.kv(i), models[i], c)
		}
		if h.Reopen == 3 {
			// historical reads since the last commit, the way the application serves them: a copy of
			// the multistore loaded at every older version that is still there (reading must not
			// leave anything behind that a crash in the coming Commit would trip over)
			for u := int64(1); u < v-1; u++ {
				if !rmRetained(u, v-1, h.Pruning) {
					continue
				}
				cp := (*s.rs.CopyStore()).(*rootmulti.Store)
				func() {
					defer func() { recover() }()
					_ = cp.LoadVersion(u)
				}()
			}
		}
		pre := db.Snapshot()
		db.StartLog()
		cid := s.rs.Commit()
		log := db.StopLog()
		snap := make([]kvMap, h.N)
		for i := range models {
			snap[i] = models[i].clone()
		}
		snaps[v] = snap
		recs = append(recs, commitRec{pre, log, cid.Hash})
	}
	// one further block for the "commits normally afterwards" clause
	extra := make([]int, h.N)
	for i := range extra {
		extra[i] = 2 // k1=b everywhere
	}
	pr := "keepRecent>0"
	if h.Pruning[0] == 0 {
		pr = "keepRecent=0"
		if h.Pruning[1] == 1 {
			pr = "prune-nothing"
		}
	}
	var judge func(v int64, vi int, hash []byte, cdb *crashdb.DB, csName, where string)
	judge = func(v int64, vi int, hash []byte, cdb *crashdb.DB, csName, where string) {
		s2, err := rmOpenLazy(cdb, h.N, h.Pruning, -1, lazy)
		if v == 1 {
			where += "|first-commit"
		}
		if err != nil {
			fail("reopen-fails|"+where+"|"+pr, "crash during commit %d at [%s]: reopening fails: %v", v, csName, err)
			return
		}
		lv := s2.rs.LastCommitID().Version
		if lv != v-1 && lv != v {
			fail("reopen-version|"+where+"|"+pr, "crash during commit %d at [%s]: reopened at version %d", v, csName, lv)
			return
		}
		for i := 0; i < h.N; i++ {
			if got, want := s2.content(i), snaps[lv][i].iterate(nil, nil, true); !pairsEqual(got, want) {
				fail("mixed-content|"+where+"|"+pr, "crash during commit %d at [%s]: reopened at version %d but store %s holds [%s], version %d committed [%s]", v, csName, lv, rmName(i), pairsString(got), lv, pairsString(want))
				return
			}
		}
		// re-execute the interrupted block (Tendermint's handshake replays it) and compare hashes
		if lv == v-1 {
			m2 := make([]kvMap, h.N)
			for i := 0; i < h.N; i++ {
				m2[i] = snaps[lv][i].clone()
				rmApplyChoice(s2.kv(i), m2[i], h.Choice[vi][i])
			}
			cid := s2.rs.Commit()
			if cid.Version != v || !bytes.Equal(cid.Hash, hash) {
				fail("replay-hash|"+where+"|"+pr, "crash during commit %d at [%s]: re-executing the block yields %d/%X, uninterrupted run %d/%X", v, csName, cid.Version, cid.Hash, v, hash)
				return
			}
		}
		// one further block commits normally and reopens
		m3 := make([]kvMap, h.N)
		for i := 0; i < h.N; i++ {
			m3[i] = snaps[v][i].clone()
			rmApplyChoice(s2.kv(i), m3[i], extra[i])
		}
		cid := s2.rs.Commit()
		if cid.Version != v+1 {
			fail("next-commit|"+where+"|"+pr, "crash during commit %d at [%s]: the following commit returned version %d", v, csName, cid.Version)
			return
		}
		s4, err := rmOpenLazy(crashdb.FromSnapshot(cdb.Snapshot(), nil), h.N, h.Pruning, -1, lazy)
		if err != nil {
			fail("next-reopen-fails|"+where+"|"+pr, "crash during commit %d at [%s]: after recovery and one more commit, reopening fails: %v", v, csName, err)
			return
		}
		for i := 0; i < h.N; i++ {
			if got, want := s4.content(i), m3[i].iterate(nil, nil, true); !pairsEqual(got, want) {
				fail("next-content|"+where+"|"+pr, "crash during commit %d at [%s]: after recovery and one more commit store %s holds [%s], model [%s]", v, csName, rmName(i), pairsString(got), pairsString(want))
				return
			}
		}
	}
	for vi, rec := range recs {
		v := int64(vi + 1)
		if h.Reopen == 5 && v < 3 {
			continue
		}
		atomic.AddInt64(&st.commits, 1)
		states, bad := crashStates(rec.log)
		if bad != "" {
			return fail("write-log-shape|"+pr, "commit %d: %s", v, bad)
		}
		for _, cs := range states {
			cs := cs
			atomic.AddInt64(&st.crashStates, 1)
			if len(cs.units) > 0 && len(cs.units) < len(rec.log) {
				atomic.AddInt64(&st.partial, 1)
			}
			judge(v, vi, rec.hash, crashdb.FromSnapshot(rec.pre, cs.units), cs.name, classifyCrash(cs, rec.log))
		}
	}
	// a second fault model: the k-th write of the Commit fails with a panic (tm-db's way of reporting
	// an I/O error) instead of the process being killed - the process dies all the same, but deferred
	// functions of the code being unwound still run, and what they write reaches the disk
	if h.Reopen == 0 && h.Names == 0 {
		for vi := range h.Choice {
			v := int64(vi + 1)
			rec := recs[vi]
			for k := 1; k <= len(rec.log); k++ {
				atomic.AddInt64(&st.crashStates, 1)
				db2 := crashdb.FromSnapshot(rec.pre, nil)
				s2, err := rmOpenLazy(db2, h.N, h.Pruning, -1, false)
				if err != nil {
					fail("reopen-fails|before-the-faulty-commit", "commit %d: the pre-commit database does not open: %v", v, err)
					break
				}
				for i, c := range h.Choice[vi] {
					rmApplyChoice(s2.kv(i), kvMap{}, c)
				}
				db2.FailAt(k)
				died := false
				func() {
					defer func() {
						if recover() != nil {
							died = true
						}
					}()
					s2.rs.Commit()
				}()
				db2.FailAt(0)
				if !died {
					continue // the commit needed fewer writes on this handle
				}
				cs := crashState{name: fmt.Sprintf("write %d of %d fails with a panic", k, len(rec.log)), units: rec.log[:k-1]}
				if k-1 > 0 && k-1 < len(rec.log) {
					atomic.AddInt64(&st.partial, 1)
				}
				judge(v, vi, rec.hash, crashdb.FromSnapshot(db2.Snapshot(), nil), cs.name, classifyCrash(cs, rec.log))
			}
		}
	}
	if len(out) == 0 {
		atomic.AddInt64(&st.histories, 1)
	}
	return out
}

// classifyCrash names the crash point class: which kind of unit was the last one applied.
func classifyCrash(cs crashState, log []crashdb.Unit) string {
	if cs.name == "complete" {
		return "after-commit-info"
	}
	if len(cs.units) == 0 {
		return "before-any-write"
	}
	// a prune unit deletes; a save unit only sets
	for _, u := range cs.units {
		for _, o := range u.Ops {
			if o.Delete {
				return "a-substore-pruned-before-commit-info"
			}
		}
	}
	return "substores-saved-before-commit-info"
}

// ---------------------------------------------------------------------------------------------
// the same enumeration through BaseApp: a chain history is run on the write-logging database; for
// every commit every crash state is materialised, the application reopened (Info tells which block
// to replay, as Tendermint's handshake would), the interrupted block re-executed and one more block run.

func withQueries(b chain.Block) chain.Block {
	q := []chain.Event{
		{Kind: "query", Path: "/custom/pos/validators", Data: []byte(`{"Page":1,"Limit":100}`), Height: -2},
		{Kind: "query", Path: "/custom/auth/supply", Height: -1},
		{Kind: "query", Path: "/store/auth/key", Data: append([]byte{0x01}, chain.Addr(3)...), Height: -2},
	}
	b.Events = append(q, b.Events...)
	return b
}

func c13appHistories() [][]chain.Block {
	stake := chain.Block{Events: []chain.Event{{Kind: "tx", Tx: &chain.TxSpec{Msg: "stake", From: 2, Amount: min}}}}
	send := chain.Block{Events: []chain.Event{{Kind: "tx", Tx: &chain.TxSpec{Msg: "send", From: 3, To: 2, Amount: 5}}}}
	unst := chain.Block{Events: []chain.Event{{Kind: "tx", Tx: &chain.TxSpec{Msg: "unstake", From: 0}}}}
	miss := chain.Block{Missed: []int{0}}
	gov := chain.Block{Events: []chain.Event{{Kind: "tx", Tx: &chain.TxSpec{Msg: "change_param", From: 4, Key: "pos/MaxValidators", Val: `"1"`}}}}
	award := chain.Block{Events: []chain.Event{{Kind: "award", Who: 3, Amount: 9}}}
	mature := chain.Block{DT: 3 * time.Second}
	return [][]chain.Block{
		{{}, {}, {}},
		{send, stake, {}},
		{stake, unst, mature},
		{miss, miss, send},
		{gov, unst, award},
		{award, send, stake, unst},
		// historical queries (module and store queries one and two blocks back) before the transactions
		// of a block: whatever serving them touches must not matter to a crash in the Commit that follows
		{send, stake, withQueries(send), withQueries(unst)},
	}
}

// c13gasHistory: blocks whose second or third transaction crosses the block gas limit of
// c13gasLimit (the limit is a consensus parameter handed over at InitChain: an instance reopened
// after the crash has to find it again to re-execute the interrupted block the same way).
const c13gasLimit = 150000

func c13gasHistory() []chain.Block {
	send := func(from, to int) chain.Event {
		return chain.Event{Kind: "tx", Tx: &chain.TxSpec{Msg: "send", From: from, To: to, Amount: 1}}
	}
	return []chain.Block{
		{Events: []chain.Event{send(3, 2), send(4, 2), send(2, 3)}},
		{Events: []chain.Event{{Kind: "tx", Tx: &chain.TxSpec{Msg: "stake", From: 2, Amount: min}}, send(3, 2), send(4, 2), send(3, 4)}},
		{Events: []chain.Event{send(3, 2), send(4, 2)}},
	}
}

func runC13app(hist []chain.Block, pruning [2]int64, st *c13stats) (out []*c12result) {
	return runC13appCfg(baseCfg(), hist, pruning, st)
}

func runC13appCfg(cfg chain.Config, hist []chain.Block, pruning [2]int64, st *c13stats) (out []*c12result) {
	name := fmt.Sprintf("app history %v pruning=(%d,%d)", blockLabels(hist), pruning[0], pruning[1])
	if cfg.MaxBlockGas != 0 {
		name += fmt.Sprintf(" block gas limit %d", cfg.MaxBlockGas)
	}
	defer func() {
		if r := recover(); r != nil {
			out = append(out, &c12result{"C13|app|panic", name + ": " + fmt.Sprintf("panic: %.300v", r)})
		}
	}()
	seen := map[string]bool{}
	fail := func(sig, f string, a ...interface{}) {
		if !seen[sig] {
			seen[sig] = true
			out = append(out, &c12result{"C13|app|" + sig, name + ": " + fmt.Sprintf(f, a...)})
		}
	}
	pr := "keepRecent>0"
	if pruning[0] == 0 {
		pr = "keepRecent=0"
		if pruning[1] == 1 {
			pr = "prune-nothing"
		}
	}
	cfg.Pruning = pruning
	db := crashdb.New()
	d := chain.NewDriverOnDB(cfg, db)
	defer d.Close()
	type rec struct {
		pre  map[string][]byte
		log  []crashdb.Unit
		hash []byte
		tm   chain.TMState
	}
	var recs []rec
	ext := append(append([]chain.Block{}, hist...), chain.Block{Events: []chain.Event{{Kind: "tx", Tx: &chain.TxSpec{Msg: "send", From: 4, To: 3, Amount: 1}}}})
	for _, b := range ext {
		tm := d.TMState()
		pre := db.Snapshot()
		// the log must cover only the Commit: block execution writes nothing durable, which is checked too
		db.StartLog()
		r := d.RunBlock(b, &chain.Hooks{AfterEnd: func(dd *chain.Driver, _ []abci.ValidatorUpdate) {
			if l := db.StopLog(); len(l) > 0 {
				fail("durable-write-before-commit|"+pr, "block %d wrote %d durable units before Commit", dd.Height+1, len(l))
			}
			db.StartLog()
		}})
		log := db.StopLog()
		if r.Panic != "" {
			fail("uninterrupted-run-panics|"+pr, "block %d: %s", r.Height, r.Panic)
			return
		}
		recs = append(recs, rec{pre, log, r.AppHash, tm})
	}
	for bi := 0; bi < len(hist); bi++ {
		rc := recs[bi]
		h := int64(bi + 1)
		atomic.AddInt64(&st.commits, 1)
		states, bad := crashStates(rc.log)
		if bad != "" {
			fail("write-log-shape|"+pr, "commit %d: %s", h, bad)
			continue
		}
		for _, cs := range states {
			atomic.AddInt64(&st.crashStates, 1)
			if len(cs.units) > 0 && len(cs.units) < len(rc.log) {
				atomic.AddInt64(&st.partial, 1)
			}
			where := classifyCrash(cs, rc.log)
			if h == 1 {
				where += "|first-commit"
			}
			cdb := crashdb.FromSnapshot(rc.pre, cs.units)
			d2, err := chain.ResumeDriver(cfg, cdb, rc.tm)
			if err != nil {
				fail("reopen-fails|"+where+"|"+pr, "crash during commit %d at [%s]: the application does not reopen: %.200v", h, cs.name, err)
				continue
			}
			func() {
				defer d2.Close()
				lv := d2.App.LastBlockHeight()
				if lv != h-1 && lv != h {
					fail("reopen-version|"+where+"|"+pr, "crash during commit %d at [%s]: Info reports height %d", h, cs.name, lv)
					return
				}
				next := bi
				if lv == h {
					// the commit is complete: Tendermint moves on
					d2.Height, d2.Time = h, recs[bi+1].tm.Time
					d2.PrevSet, d2.CurSet, d2.NextSet = recs[bi+1].tm.PrevSet, recs[bi+1].tm.CurSet, recs[bi+1].tm.NextSet
					d2.Index.Restore(recs[bi+1].tm)
					next = bi + 1
				}
				for j := next; j <= bi+1 && j < len(ext); j++ {
					r := d2.RunBlock(ext[j], nil)
					if r.Panic != "" {
						fail("replay-panics|"+where+"|"+pr, "crash during commit %d at [%s]: re-executing block %d panics: %.200s", h, cs.name, j+1, r.Panic)
						return
					}
					if !bytes.Equal(r.AppHash, recs[j].hash) {
						fail("replay-hash|"+where+"|"+pr, "crash during commit %d at [%s]: block %d yields app hash %X, uninterrupted run %X", h, cs.name, j+1, r.AppHash, recs[j].hash)
						return
					}
				}
			}()
		}
	}
	if len(out) == 0 {
		atomic.AddInt64(&st.histories, 1)
	}
	return out
}

func blockLabels(bs []chain.Block) []string {
	var out []string
	for _, b := range bs {
		out = append(out, b.String())
	}
	return out
}

// C13 entry point.
func C13(tier string) int {
	run := ev.NewRun("C13", tier, "fault_enumeration")
	type job struct{ n, v, choices int }
	jobs := []job{{1, 3, 6}, {2, 2, 6}, {2, 3, 3}}
	if tier == "thorough" {
		jobs = []job{{1, 4, 6}, {2, 3, 4}, {3, 2, 4}, {3, 3, 2}}
	}
	st := &c13stats{}
	var total int64
	var mu sync.Mutex
	sem := make(chan struct{}, runtime.NumCPU())
	var wg sync.WaitGroup
	var desc []string
	// passes: plain; the node restarted before every commit (eager / lazy loading); store names that
	// are proper prefixes of each other
	type mode struct {
		names, reopen int
		what          string
	}
	modes := []mode{{0, 0, ""}, {0, 1, " [reopened before every commit]"}, {0, 2, " [reopened lazily before every commit]"}, {1, 0, " [stores acc, accounts, a]"},
		{0, 3, " [older versions loaded on a copy before every commit]"}, {0, 4, " [reopened before every commit, pruning options set after loading]"},
		{0, 5, " [last substore mounted for the first time before commit 2, crashes from commit 3 on]"}}
	for _, md := range modes {
		md := md
		atomic.StoreInt32(&rmNameVariant, int32(md.names))
		for _, j := range jobs {
			if md.names == 1 && j.n < 2 {
				continue
			}
			if md.reopen == 5 && (j.n < 2 || j.v < 3) {
				continue
			}
			cnt := int64(0)
			for _, pr := range rmPrunings {
				pr := pr
				var batch [][][]int
				flush := func(b [][][]int) {
					wg.Add(1)
					sem <- struct{}{}
					go func() {
						defer wg.Done()
						defer func() { <-sem }()
						for _, ch := range b {
							h := rmHist{N: j.n, Choice: ch, Pruning: pr, Names: md.names, Reopen: md.reopen}
							for _, r := range runC13(h, st) {
								mu.Lock()
								run.Report(r.sig, r.what, h)
								mu.Unlock()
							}
						}
					}()
				}
				enumChoices(j.n, j.v, j.choices, func(ch [][]int) {
					cnt++
					batch = append(batch, copyChoices(ch))
					if len(batch) == 64 {
						flush(batch)
						batch = nil
					}
				})
				if len(batch) > 0 {
					flush(batch)
				}
			}
			total += cnt
			desc = append(desc, fmt.Sprintf("N=%d V=%d choices=%d: %d histories x %d pruning options%s", j.n, j.v, j.choices, cnt/int64(len(rmPrunings)), len(rmPrunings), md.what))
		}
		wg.Wait()
	}
	atomic.StoreInt32(&rmNameVariant, 0)
	// application-level crash enumeration
	appPrunings := [][2]int64{{0, 1}, {0, 0}, {1, 2}}
	if tier == "thorough" {
		appPrunings = rmPrunings
	}
	appRuns := int64(0)
	for _, hst := range c13appHistories() {
		for _, pr := range appPrunings {
			hst, pr := hst, pr
			appRuns++
			wg.Add(1)
			sem <- struct{}{}
			go func() {
				defer wg.Done()
				defer func() { <-sem }()
				for _, r := range runC13app(hst, pr, st) {
					mu.Lock()
					run.Report(r.sig, r.what, map[string]interface{}{"history": blockLabels(hst), "pruning": pr})
					mu.Unlock()
				}
			}()
		}
	}
	for _, pr := range appPrunings {
		pr := pr
		appRuns++
		wg.Add(1)
		sem <- struct{}{}
		go func() {
			defer wg.Done()
			defer func() { <-sem }()
			gc := baseCfg()
			gc.MaxBlockGas = c13gasLimit
			for _, r := range runC13appCfg(gc, c13gasHistory(), pr, st) {
				mu.Lock()
				run.Report(r.sig, r.what, map[string]interface{}{"history": blockLabels(c13gasHistory()), "pruning": pr, "max_block_gas": c13gasLimit})
				mu.Unlock()
			}
		}()
	}
	wg.Wait()
	run.Set("app_level_histories_x_prunings", appRuns)
	run.Set("evaluations", st.crashStates)
	run.Set("distinct_nontrivial", st.partial)
	run.Set("histories", total)
	run.Set("histories_fully_passed", st.histories)
	run.Set("commits", st.commits)
	run.Set("crash_states", st.crashStates)
	run.Set("jobs", desc)
	run.Set("rule", "for every write history, every commit, every crash state = pre-commit database + a subset of substores fully committed + at most one substore between its save batch and its prune batch (commutation closure over substore order), plus the complete commit; each crash state is reopened, checked for a single consistent version, the interrupted block re-executed and one more block committed; a second fault model lets the k-th write of every Commit fail with a panic (later writes, e.g. from deferred functions, succeed) and judges the database left behind the same way; the whole enumeration is repeated with the store reopened before every commit (eager and lazy loading; with the pruning options handed over after loading), with every older retained version loaded on a CopyStore before every commit (historical reads), and with store names that are proper prefixes of each other; every crash state is distinct by construction (history, commit, set of applied write units); non-trivial = a proper partial state: at least one and not all of the commit's write units reached the database")
	run.Sample("N=2 pruning=(0,0) v1[k1=a | k2=a] v2[del k1 | -], crash during commit 2 at [done={s1}+s2:1/2]")
	run.Assume("a Batch.Write is atomic (goleveldb journal); Write and WriteSync are not distinguished", "units of different substores touch disjoint key prefixes (checked on every log)", "MemDB stands in for the on-disk database")
	return run.Finish()
}

func init() { Registry["C13"] = C13 }
