package checks

// C14 — store queries return committed data with proofs that verify against the app hash.

import (
	"bytes"
	"fmt"
	stypes "github.com/pokt-network/posmint/store/types"
	posTypes "github.com/pokt-network/posmint/x/pos/types"
	"runtime"
	"sync"
	"sync/atomic"

	"github.com/pokt-network/posmint/store/rootmulti"
	abci "github.com/tendermint/tendermint/abci/types"
	"github.com/tendermint/tendermint/crypto/merkle"
	"time"

	"verif/internal/chain"

	"verif/internal/crashdb"
	"verif/internal/ev"
)

var c14keys = [][]byte{rmK1, rmK2, []byte("k"), []byte("k1\x00"), []byte("k3"), []byte("k0"), []byte("zz")}

func keyPath(store string, key []byte) string {
	kp := merkle.KeyPath{}
	kp = kp.AppendKey([]byte(store), merkle.KeyEncodingURL)
	kp = kp.AppendKey(key, merkle.KeyEncodingHex)
	return kp.String()
}

type c14stats struct{ queries, proofs, histories, phases, commits int64 }

func runC14(h rmHist, st *c14stats) (out []*c12result) {
	defer func() {
		if r := recover(); r != nil {
			out = append(out, &c12result{"C14|panic", h.String() + ": " + fmt.Sprintf("panic: %.300v", r)})
		}
	}()
	pr := "keepRecent>0"
	if h.Pruning[0] == 0 {
		pr = "keepRecent=0"
	}
	seen := map[string]bool{}
	fail := func(sig, f string, a ...interface{}) {
		if !seen[sig] {
			seen[sig] = true
			out = append(out, &c12result{"C14|" + sig + "|" + pr, h.String() + ": " + fmt.Sprintf(f, a...)})
		}
	}
	db := crashdb.New()
	s, err := rmOpen(db, h.N, h.Pruning, -1)
	if err != nil {
		fail("open", "cannot open: %v", err)
		return
	}
	prt := rootmulti.DefaultProofRuntime()
	models := make([]kvMap, h.N)
	for i := range models {
		models[i] = kvMap{}
	}
	snaps := map[int64][]kvMap{}
	hashes := map[int64][]byte{}
	V := int64(len(h.Choice))
	check := func(latest int64, phase string) {
		atomic.AddInt64(&st.phases, 1)
		// the read-only view of a height (CacheMultiStoreWithVersion, what height-pinned reads use):
		// the content committed at that height whatever has been written or committed since; no data
		// for a released or future height
		for height := int64(1); height <= latest+1; height++ {
			var view stypes.CacheMultiStore
			var verr error
			func() {
				defer func() {
					if r := recover(); r != nil {
						verr = fmt.Errorf("panic: %v", r)
					}
				}()
				view, verr = s.rs.CacheMultiStoreWithVersion(height)
			}()
			readable := rmRetained(height, latest, h.Pruning)
			if readable && verr != nil {
				fail("view-of-readable-height-fails|"+phase, "CacheMultiStoreWithVersion(%d) (retained, latest %d) fails: %v", height, latest, verr)
				continue
			}
			if verr != nil {
				continue
			}
			for i := 0; i < h.N; i++ {
				for _, key := range c14keys {
					if len(key) == 0 {
						continue
					}
					atomic.AddInt64(&st.queries, 1)
					var got []byte
					func() {
						defer func() { recover() }()
						got = view.GetKVStore(s.keys[i]).Get(key)
					}()
					if !readable {
						if got != nil {
							fail("view-serves-unreadable-height|"+phase, "the view of height %d (not retained / future, latest %d) serves store %s key %q = %q", height, latest, rmName(i), key, got)
						}
						continue
					}
					if want, present := snaps[height][i][string(key)]; !bytes.Equal(got, want) || (got == nil) != !present {
						fail("view-wrong-value|"+phase, "the view of height %d (latest %d) shows store %s key %q = %q, committed at that height %q (present=%v)", height, latest, rmName(i), key, got, want, present)
					}
				}
			}
		}
		for i := 0; i < h.N; i++ {
			for _, key := range c14keys {
				for height := int64(0); height <= latest+1; height++ {
					for _, prove := range []bool{false, true} {
						atomic.AddInt64(&st.queries, 1)
						res := s.rs.Query(abci.RequestQuery{Path: "/" + rmName(i) + "/key", Data: key, Height: height, Prove: prove})
						hh := height
						if height == 0 {
							// documented default at the multistore level: latest-1 if it exists, else latest;
							// value and proof are judged against the height the response reports
							hh = res.Height
							if hh < 1 || hh > latest {
								if latest >= 1 {
									fail("default-height|"+phase, "store %s key %q height 0: response height %d outside 1..%d", rmName(i), key, hh, latest)
								}
								continue
							}
						} else if res.Height != height && res.Code == 0 && (res.Value != nil || res.Proof != nil) {
							fail("response-height|"+phase, "store %s key %q height %d: response reports height %d", rmName(i), key, height, res.Height)
							continue
						}
						readable := rmRetained(hh, latest, h.Pruning)
						if !readable {
							if res.Value != nil || (res.Proof != nil && len(res.Proof.Ops) > 0) {
								kind := "pruned"
								if hh > latest {
									kind = "future"
								}
								fail(kind+"-height-served|"+phase, "store %s key %q height %d (%s, latest %d): value %q proof-ops %d returned", rmName(i), key, hh, kind, latest, res.Value, lenOps(res.Proof))
							}
							// ... and the response says so: a success without value, proof and message cannot be
							// told from "this key was absent at that height"
							if res.Code == 0 && res.Log == "" && res.Value == nil {
								kind := "pruned"
								if hh > latest {
									kind = "future"
								}
								fail(kind+"-height-answered-as-absent|"+phase, "store %s key %q height %d (%s, latest %d) prove=%v: the response carries neither an error code nor a message, exactly like the answer for an absent key", rmName(i), key, hh, kind, latest, prove)
							}
							continue
						}
						want, present := snaps[hh][i][string(key)]
						if res.Code != 0 {
							fail("readable-height-error|"+phase, "store %s key %q height %d prove=%v: error code %d log %q", rmName(i), key, hh, prove, res.Code, res.Log)
							continue
						}
						if !bytes.Equal(res.Value, want) || (res.Value == nil) != !present {
							fail("wrong-value|"+phase, "store %s key %q height %d prove=%v: value %q, committed at that height %q (present=%v)", rmName(i), key, hh, prove, res.Value, want, present)
							continue
						}
						if !prove {
							continue
						}
						atomic.AddInt64(&st.proofs, 1)
						if res.Proof == nil || len(res.Proof.Ops) == 0 {
							fail("missing-proof|"+phase, "store %s key %q height %d: no proof returned", rmName(i), key, hh)
							continue
						}
						kp := keyPath(rmName(i), key)
						verify := func(root []byte) error {
							if present {
								return prt.VerifyValue(res.Proof, root, kp, want)
							}
							return prt.VerifyAbsence(res.Proof, root, kp)
						}
						if err := verify(hashes[hh]); err != nil {
							cls := "present-key"
							if !present {
								cls = "absent-key"
								for k := range snaps[hh][i] {
									if len(k) < len(key) && bytes.HasPrefix(key, []byte(k)) {
										cls = "absent-key-extending-a-stored-key"
									}
								}
							}
							fail("proof-does-not-verify|"+cls+"|"+phase, "store %s key %q height %d (present=%v): proof does not verify against the app hash of height %d: %v", rmName(i), key, hh, present, hh, err)
							continue
						}
						for o := int64(1); o <= latest; o++ {
							if o != hh && !bytes.Equal(hashes[o], hashes[hh]) && verify(hashes[o]) == nil {
								fail("proof-verifies-against-other-height|"+phase, "store %s key %q: proof for height %d also verifies against the different app hash of height %d", rmName(i), key, hh, o)
							}
						}
						// and it must not prove a different value / the opposite presence
						if present {
							if prt.VerifyValue(res.Proof, hashes[hh], kp, append(append([]byte{}, want...), 'x')) == nil {
								fail("proof-proves-wrong-value|"+phase, "store %s key %q height %d: proof verifies for a different value", rmName(i), key, hh)
							}
							if prt.VerifyAbsence(res.Proof, hashes[hh], kp) == nil {
								fail("proof-proves-absence-of-present-key|"+phase, "store %s key %q height %d: existence proof verifies as absence", rmName(i), key, hh)
							}
						} else if prt.VerifyValue(res.Proof, hashes[hh], kp, []byte("a")) == nil {
							fail("absence-proof-proves-value|"+phase, "store %s key %q height %d: absence proof verifies as value", rmName(i), key, hh)
						}
					}
				}
			}
		}
	}
	for vi, cs := range h.Choice {
		v := int64(vi + 1)
		for i, c := range cs {
			rmApplyChoice(s.kv(i), models[i], c)
		}
		// queries in the middle of the block (uncommitted writes in the working tree) see committed data only
		if v > 1 && v == V {
			check(v-1, "mid-block")
		}
		cid := s.rs.Commit()
		atomic.AddInt64(&st.commits, 1)
		snap := make([]kvMap, h.N)
		for i := range models {
			snap[i] = models[i].clone()
		}
		snaps[v] = snap
		hashes[v] = cid.Hash
		if v == V {
			check(v, "between-blocks")
			// the same queries against a store reopened from the database (no commit since the load)
			s2, err := rmOpen(crashdb.FromSnapshot(db.Snapshot(), nil), h.N, h.Pruning, -1)
			if err != nil {
				fail("reopen", "cannot reopen: %v", err)
			} else {
				live := s
				s = s2
				check(v, "after-reopen")
				s = live
			}
		}
	}
	if len(out) == 0 {
		atomic.AddInt64(&st.histories, 1)
	}
	return out
}

func lenOps(p *merkle.Proof) int {
	if p == nil {
		return 0
	}
	return len(p.Ops)
}

// c14app: the same oracle through BaseApp.Query("/store/<name>/key") on chain histories, plus the
// BaseApp-level rules: height 0 defaults to the latest committed height, no proof at height <= 1.
func c14app(st *c14stats) (out []*c12result) {
	defer func() {
		if r := recover(); r != nil {
			out = append(out, &c12result{"C14|app|panic", fmt.Sprintf("panic: %.300v", r)})
		}
	}()
	seen := map[string]bool{}
	fail := func(sig, f string, a ...interface{}) {
		if !seen[sig] {
			seen[sig] = true
			out = append(out, &c12result{"C14|app|" + sig, fmt.Sprintf(f, a...)})
		}
	}
	prt := rootmulti.DefaultProofRuntime()
	hist := []chain.Block{
		{Events: []chain.Event{{Kind: "tx", Tx: &chain.TxSpec{Msg: "send", From: 3, To: 9, Amount: 5}}}},
		{Events: []chain.Event{{Kind: "tx", Tx: &chain.TxSpec{Msg: "stake", From: 2, Amount: min}}}},
		{Events: []chain.Event{{Kind: "tx", Tx: &chain.TxSpec{Msg: "unstake", From: 0}}}},
		{DT: 3 * time.Second},
		{Events: []chain.Event{{Kind: "tx", Tx: &chain.TxSpec{Msg: "send", From: 9, To: 3, Amount: 1}}}},
	}
	for _, pruning := range [][2]int64{{0, 1}, {0, 0}, {1, 2}} {
		cfg := baseCfg()
		cfg.Pruning = pruning
		d := chain.NewDriver(cfg)
		snaps := map[int64]chain.Dump{}
		hashes := map[int64][]byte{}
		keyset := map[string]map[string]bool{"auth": {}, "pos": {}}
		for _, b := range hist {
			r := d.RunBlock(b, nil)
			if r.Panic != "" {
				fail("history-panics", "%s", r.Panic)
				break
			}
			dump := d.App.RawDump()
			snaps[d.Height], hashes[d.Height] = dump, r.AppHash
			for _, n := range []string{"auth", "pos"} {
				for _, kv := range dump[n] {
					if len(kv.K) > 0 && (kv.K[0] == 0x01 || kv.K[0] == 0x21 || kv.K[0] == 0x00) {
						keyset[n][string(kv.K)] = true
					}
				}
			}
		}
		keyset["auth"][string(append([]byte{0x01}, chain.Addr(12)...))] = true // never written
		keyset["pos"][string(append([]byte{0x21}, chain.Addr(12)...))] = true
		latest := d.Height
		for _, phase := range []string{"", "|after-restart"} {
			if phase != "" {
				d.Restart() // a node re-created over its database answers the same before it commits again
			}
			fail := func(sig, f string, a ...interface{}) { fail(sig+phase, f, a...) }
			// a module query at every past height first (the application serves it from a copy of the
			// multistore loaded at that height): reading the past leaves every height as readable as it was
			for hq := int64(1); hq <= latest; hq++ {
				atomic.AddInt64(&st.queries, 1)
				d.App.Query(abci.RequestQuery{Path: "/custom/pos/validators", Data: []byte(`{"Page":1,"Limit":100}`), Height: hq})
			}
			for _, name := range []string{"auth", "pos"} {
				for k := range keyset[name] {
					for _, neg := range []int64{-1, -7} {
						for _, prove := range []bool{false, true} {
							atomic.AddInt64(&st.queries, 1)
							if res := d.App.Query(abci.RequestQuery{Path: "/store/" + name + "/key", Data: []byte(k), Height: neg, Prove: prove}); res.Value != nil || (res.Proof != nil && len(res.Proof.Ops) > 0) {
								fail("negative-height-served", "store %s key %X height %d prove=%v: value %X / proof returned (response height %d)", name, k, neg, prove, res.Value, res.Height)
							}
						}
					}
					for height := int64(0); height <= latest+1; height++ {
						for _, prove := range []bool{false, true} {
							atomic.AddInt64(&st.queries, 1)
							res := d.App.Query(abci.RequestQuery{Path: "/store/" + name + "/key", Data: []byte(k), Height: height, Prove: prove})
							hh := height
							if height == 0 {
								hh = latest // documented default at the BaseApp level
							}
							if prove && hh <= 1 {
								if res.Code == 0 || res.Value != nil {
									fail("proof-at-height<=1-served", "store %s height %d with proof: code %d value %X (documented: refused)", name, height, res.Code, res.Value)
								}
								continue
							}
							if res.Height != hh && res.Code == 0 {
								fail("response-height", "store %s key %X height %d: response height %d, expected %d", name, k, height, res.Height, hh)
								continue
							}
							if !rmRetained(hh, latest, pruning) {
								if res.Value != nil || (res.Proof != nil && len(res.Proof.Ops) > 0) {
									fail("unreadable-height-served", "store %s key %X height %d (latest %d): value/proof served", name, k, hh, latest)
								}
								continue
							}
							var want []byte
							present := false
							for _, kv := range snaps[hh][name] {
								if string(kv.K) == k {
									want, present = kv.V, true
								}
							}
							if res.Code != 0 || !bytes.Equal(res.Value, want) {
								fail("wrong-value", "store %s key %X height %d prove=%v: code %d value %X, committed %X", name, k, hh, prove, res.Code, res.Value, want)
								continue
							}
							if !prove {
								continue
							}
							atomic.AddInt64(&st.proofs, 1)
							kp := keyPath(name, []byte(k))
							var err error
							if present {
								err = prt.VerifyValue(res.Proof, hashes[hh], kp, want)
							} else {
								err = prt.VerifyAbsence(res.Proof, hashes[hh], kp)
							}
							if err != nil {
								fail("proof-does-not-verify", "store %s key %X height %d present=%v: %v", name, k, hh, present, err)
								continue
							}
							for o := int64(1); o <= latest; o++ {
								if o == hh || bytes.Equal(hashes[o], hashes[hh]) {
									continue
								}
								if present && prt.VerifyValue(res.Proof, hashes[o], kp, want) == nil || !present && prt.VerifyAbsence(res.Proof, hashes[o], kp) == nil {
									fail("proof-verifies-against-other-height", "store %s key %X: proof for height %d verifies against the app hash of height %d", name, k, hh, o)
								}
							}
						}
					}
				}
			}
		}
		// between the transactions of one more block: store queries and the modules' own queries at
		// the latest height (explicit and defaulted) answer exactly as they did before the block began
		accKey := func(i int) []byte { return append([]byte{0x01}, chain.Addr(i)...) }
		jm := func(v interface{}) []byte { return posTypes.ModuleCdc.MustMarshalJSON(v) }
		type q struct {
			path string
			data []byte
		}
		qs := []q{
			{"/store/auth/key", accKey(3)}, {"/store/auth/key", accKey(4)}, {"/store/auth/key", accKey(14)},
			{"/store/pos/key", append([]byte{0x21}, chain.Addr(1)...)},
			{"/custom/pos/account_balance", jm(posTypes.QueryAccountBalanceParams{Address: chain.Addr(3)})},
			{"/custom/pos/account_balance", jm(posTypes.QueryAccountBalanceParams{Address: chain.Addr(14)})},
			{"/custom/pos/validator", jm(posTypes.QueryValidatorParams{Address: chain.Addr(1)})},
			{"/custom/pos/validators", jm(posTypes.NewQueryValidatorsParams(1, 100))},
			{"/custom/pos/stakedPool", nil}, {"/custom/auth/supply", nil}, {"/custom/gov/dao", nil},
		}
		ask := func() []string {
			var out []string
			for _, x := range qs {
				for _, hq := range []int64{0, d.App.LastBlockHeight()} {
					atomic.AddInt64(&st.queries, 1)
					r := d.App.Query(abci.RequestQuery{Path: x.path, Data: x.data, Height: hq})
					out = append(out, fmt.Sprintf("%s h=%d -> code %d value %X", x.path, hq, r.Code, r.Value))
				}
			}
			return out
		}
		committed := ask()
		atomic.AddInt64(&st.phases, 1)
		mid := chain.Block{Events: []chain.Event{
			{Kind: "tx", Tx: &chain.TxSpec{Msg: "send", From: 3, To: 14, Amount: 7}},
			{Kind: "tx", Tx: &chain.TxSpec{Msg: "unstake", From: 1}},
			{Kind: "tx", Tx: &chain.TxSpec{Msg: "send", From: 4, To: 3, Amount: 2}},
		}}
		r := d.RunBlock(mid, &chain.Hooks{AfterEvent: func(dd *chain.Driver, i int, e chain.Event, tr *chain.TxResult) {
			for j, a := range ask() {
				if a != committed[j] {
					fail("mid-block-answer-differs-from-committed", "after transaction %d of block %d (uncommitted): %s; before the block began: %s", i+1, latest+1, a, committed[j])
				}
			}
		}})
		if r.Panic != "" {
			fail("history-panics", "%s", r.Panic)
		}
		d.Close()
	}
	return out
}

// C14 entry point.
func C14(tier string) int {
	run := ev.NewRun("C14", tier, "model_checking")
	type job struct{ n, v, choices int }
	jobs := []job{{1, 3, 7}, {2, 2, 7}, {2, 3, 3}}
	if tier == "thorough" {
		jobs = []job{{1, 4, 7}, {2, 3, 4}, {2, 4, 3}} // ({2,3,7} = 0.8M histories x 420 queries did not finish in an hour)
	}
	st := &c14stats{}
	deadline := time.Now().Add(25 * time.Minute)
	if tier != "thorough" {
		deadline = time.Now().Add(4 * time.Minute)
	}
	skipped := int64(0)
	var total int64
	var mu sync.Mutex
	sem := make(chan struct{}, runtime.NumCPU())
	var wg sync.WaitGroup
	var desc []string
	prunings := rmPrunings
	if tier != "thorough" {
		prunings = [][2]int64{{0, 1}, {0, 0}, {1, 2}, {2, 3}}
	}
	for _, j := range jobs {
		cnt := int64(0)
		for _, pr := range prunings {
			pr := pr
			var batch [][][]int
			flush := func(b [][][]int) {
				wg.Add(1)
				sem <- struct{}{}
				go func() {
					defer wg.Done()
					defer func() { <-sem }()
					for _, ch := range b {
						h := rmHist{N: j.n, Choice: ch, Pruning: pr}
						for _, r := range runC14(h, st) {
							mu.Lock()
							run.Report(r.sig, r.what, h)
							mu.Unlock()
						}
					}
				}()
			}
			enumChoices(j.n, j.v, j.choices, func(ch [][]int) {
				if time.Now().After(deadline) {
					skipped++
					return
				}
				cnt++
				batch = append(batch, copyChoices(ch))
				if len(batch) == 64 {
					flush(batch)
					batch = nil
				}
			})
			if len(batch) > 0 {
				flush(batch)
			}
		}
		total += cnt
		desc = append(desc, fmt.Sprintf("N=%d V=%d choices=%d: %d histories x %d pruning options", j.n, j.v, j.choices, cnt/int64(len(prunings)), len(prunings)))
	}
	wg.Wait()
	for _, r := range c14app(st) {
		run.Report(r.sig, r.what, nil)
	}
	if skipped > 0 {
		run.Set("exhaustive", false)
		run.Set("cap_hit", fmt.Sprintf("internal deadline reached: %d of %d histories were not run", skipped, skipped+total))
	}
	run.Set("evaluations", st.queries)
	run.Set("states", st.phases)
	run.Set("transitions", st.queries+st.commits)
	run.Set("traces_validated_against_impl", total)
	run.Set("distinct_nontrivial", st.proofs)
	run.Set("queries", st.queries)
	run.Set("proofs_verified", st.proofs)
	run.Set("histories", total)
	run.Set("jobs", desc)
	run.Set("rule", "for every write history: after the last commit and in the middle of the last block (uncommitted writes applied), every store x every key of {k1,k2,k,k1\\x00,k3,k0,zz} x every height 0..latest+1 x prove in {false,true} through rootmulti.Query('/<store>/key'), and every height 1..latest+1 through the read-only view CacheMultiStoreWithVersion(height) (every store x key read from it); value compared with the model snapshot of the height, proof verified with DefaultProofRuntime against the app hash of that height and required to fail against every other height's different hash, for a different value and for the opposite presence; evaluations = queries issued; states = (history, phase) store states that were queried exhaustively (between blocks, mid-block, after reopening); transitions = queries + commits executed; distinct_nontrivial = proofs verified (each for a distinct history, phase, store, key, height)")
	run.Sample("N=2 pruning=(0,2) v1[k1=a | k2=a] v2[del k1 | -] v3[k1=b | k1=a;del k2]: store s1 key \"k1\" height 2 prove=true -> absence proof against app hash of height 2")
	run.Assume("application level: a 5-block chain history under 3 pruning options, every account/validator key ever stored (+ never-written ones) x heights 0..latest+1 x prove through BaseApp.Query(/store/<name>/key): height 0 = latest, proof refused at height <= 1, values against the raw dump recorded at that height, proofs against the app hash returned by that Commit; all of it repeated on a node re-created over the same database before it commits again; then one more block of three transactions: after each of them 11 store and module queries (account, validator, pool, supply, DAO; height 0 and latest) must answer exactly as before the block began",
		"only /key queries are judged (/subspace reads the working tree by construction)", "for height 0 the documented default applies and the response is judged against the height it reports", "retention rule as in C12")
	_ = crashdb.New
	return run.Finish()
}

func init() { Registry["C14"] = C14 }
