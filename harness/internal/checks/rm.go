package checks

// Shared rootmulti-level harness for C12 (durability / versions), C13 (crash during commit) and
// C14 (queries and proofs): N IAVL substores + one transient store over the write-logging DB,
// every write history of V versions over a small per-store write alphabet, against a map model.

import (
	"bytes"
	"fmt"
	"sort"
	"sync/atomic"

	"github.com/pokt-network/posmint/store/rootmulti"
	stypes "github.com/pokt-network/posmint/store/types"
	dbm "github.com/tendermint/tm-db"
)

var (
	rmK1 = []byte("k1")
	rmK2 = []byte("k2")
)

// per-store, per-version write choices
var rmChoiceNames = []string{"-", "k1=a", "k1=b", "del k1", "k2=a", "k1=a;del k2", "k2=(empty)"}

func rmApplyChoice(st stypes.KVStore, m kvMap, c int) {
	set := func(k, v []byte) {
		if st != nil {
			st.Set(k, v)
		}
		m[string(k)] = v
	}
	del := func(k []byte) {
		if st != nil {
			st.Delete(k)
		}
		delete(m, string(k))
	}
	switch c {
	case 1:
		set(rmK1, []byte("a"))
	case 2:
		set(rmK1, []byte("b"))
	case 3:
		del(rmK1)
	case 4:
		set(rmK2, []byte("a"))
	case 5:
		set(rmK1, []byte("a"))
		del(rmK2)
	case 6:
		set(rmK2, []byte{})
	}
}

type rmStore struct {
	rs   *rootmulti.Store
	keys []*stypes.KVStoreKey
	tkey *stypes.TransientStoreKey
}

// rmNameVariant selects the names of the mounted stores for a whole pass of a check (it is only
// changed between passes): 0 = s1, s2, s3; 1 = names that are proper prefixes of each other.
var rmNameVariant int32

func rmName(i int) string {
	if atomic.LoadInt32(&rmNameVariant) == 1 {
		return []string{"acc", "accounts", "a", "accountsx"}[i]
	}
	return fmt.Sprintf("s%d", i+1)
}

// rmOpen mounts N IAVL stores + 1 transient store on db and loads version ver (-1 = latest).
func rmOpen(db dbm.DB, n int, pruning [2]int64, ver int64) (*rmStore, error) {
	return rmOpenLazy(db, n, pruning, ver, false)
}

// rmOpenLazy: the same with the multistore's lazy-loading option.
func rmOpenLazy(db dbm.DB, n int, pruning [2]int64, ver int64, lazy bool) (*rmStore, error) {
	s := &rmStore{rs: rootmulti.NewStore(db)}
	s.rs.SetPruning(stypes.NewPruningOptions(pruning[0], pruning[1]))
	s.rs.SetLazyLoading(lazy)
	for i := 0; i < n; i++ {
		k := stypes.NewKVStoreKey(rmName(i))
		s.keys = append(s.keys, k)
		s.rs.MountStoreWithDB(k, stypes.StoreTypeIAVL, nil)
	}
	s.tkey = stypes.NewTransientStoreKey("t")
	s.rs.MountStoreWithDB(s.tkey, stypes.StoreTypeTransient, nil)
	var err error
	func() {
		defer func() {
			if r := recover(); r != nil {
				err = fmt.Errorf("panic: %v", r)
			}
		}()
		if ver < 0 {
			err = s.rs.LoadLatestVersion()
		} else {
			err = s.rs.LoadVersion(ver)
		}
	}()
	if err != nil {
		return nil, err
	}
	return s, nil
}

// rmOpenSetAfter: the pruning options are handed over only after the latest version was loaded (no
// SetPruning call before the load), the order rootmulti.SetPruning's hand-over to loaded substores
// exists for.
func rmOpenSetAfter(db dbm.DB, n int, pruning [2]int64) (*rmStore, error) {
	s := &rmStore{rs: rootmulti.NewStore(db)}
	for i := 0; i < n; i++ {
		k := stypes.NewKVStoreKey(rmName(i))
		s.keys = append(s.keys, k)
		s.rs.MountStoreWithDB(k, stypes.StoreTypeIAVL, nil)
	}
	s.tkey = stypes.NewTransientStoreKey("t")
	s.rs.MountStoreWithDB(s.tkey, stypes.StoreTypeTransient, nil)
	var err error
	func() {
		defer func() {
			if r := recover(); r != nil {
				err = fmt.Errorf("panic: %v", r)
			}
		}()
		err = s.rs.LoadLatestVersion()
	}()
	if err != nil {
		return nil, err
	}
	s.rs.SetPruning(stypes.NewPruningOptions(pruning[0], pruning[1]))
	return s, nil
}

func (s *rmStore) kv(i int) stypes.KVStore { return s.rs.GetKVStore(s.keys[i]) }

// content of substore i (working tree)
func (s *rmStore) content(i int) []kvPair { return dumpStore(s.kv(i)) }

func (s *rmStore) transientEmpty() bool {
	return len(dumpStore(s.rs.GetKVStore(s.tkey))) == 0
}

// rmHist is a write history: Choice[v][i] = write choice of store i in version v+1.
type rmHist struct {
	N       int
	Choice  [][]int
	Pruning [2]int64
	Names   int `json:",omitempty"` // store-name variant (see rmNameVariant)
	Reopen  int `json:",omitempty"` // 1 = the store is reopened before every commit, 2 = reopened with lazy loading, 3 = older versions loaded on a copy before every commit, 4 = reopened, pruning options set after loading
	// SkipSettings: the settings-change phase of C12 is not run for this history
	SkipSettings bool `json:",omitempty"`
	// Dedicated: bit i set = substore i is mounted on its own database (C12 dedicated-database pass)
	Dedicated int `json:",omitempty"`
}

func (h rmHist) String() string {
	var b bytes.Buffer
	fmt.Fprintf(&b, "N=%d pruning=(%d,%d)", h.N, h.Pruning[0], h.Pruning[1])
	if h.Names == 1 {
		b.WriteString(" stores=acc,accounts,a")
	}
	if h.Dedicated != 0 {
		fmt.Fprintf(&b, " own-database-mask=%b", h.Dedicated)
	}
	switch h.Reopen {
	case 1, 2:
		fmt.Fprintf(&b, " reopened-before-every-commit(lazy=%v)", h.Reopen == 2)
	case 3:
		b.WriteString(" older-versions-loaded-on-a-copy-before-every-commit")
	case 4:
		b.WriteString(" reopened-before-every-commit(pruning options set after loading)")
	case 5:
		b.WriteString(" last-substore-mounted-before-commit-2")
	}
	for v, cs := range h.Choice {
		fmt.Fprintf(&b, " v%d[", v+1)
		for i, c := range cs {
			if i > 0 {
				b.WriteString(" | ")
			}
			b.WriteString(rmChoiceNames[c])
		}
		b.WriteString("]")
	}
	return b.String()
}

// retained says whether version u is still readable after versions 1..v were committed.
func rmRetained(u, v int64, pruning [2]int64) bool {
	if u < 1 || u > v {
		return false
	}
	if u == v {
		return true
	}
	keepRecent, keepEvery := pruning[0], pruning[1]
	// commit w releases w-1-keepRecent unless it is a multiple of keepEvery
	if u > v-1-keepRecent {
		return true
	}
	return keepEvery != 0 && u%keepEvery == 0
}

// enumChoices enumerates all choice matrices V x N over nChoices options.
func enumChoices(n, v, nChoices int, f func(ch [][]int)) {
	total := n * v
	flat := make([]int, total)
	mat := make([][]int, v)
	for i := range mat {
		mat[i] = flat[i*n : (i+1)*n]
	}
	var rec func(pos int)
	rec = func(pos int) {
		if pos == total {
			f(mat)
			return
		}
		for c := 0; c < nChoices; c++ {
			flat[pos] = c
			rec(pos + 1)
		}
	}
	rec(0)
}

func copyChoices(ch [][]int) [][]int {
	out := make([][]int, len(ch))
	for i := range ch {
		out[i] = append([]int{}, ch[i]...)
	}
	return out
}

func sortedKeysOf(m map[string]bool) []string {
	var ks []string
	for k := range m {
		ks = append(ks, k)
	}
	sort.Strings(ks)
	return ks
}

var rmPrunings = [][2]int64{{0, 1}, {0, 0}, {1, 0}, {0, 2}, {1, 2}, {2, 3}, {100, 10000}}
