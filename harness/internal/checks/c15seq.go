package checks

// C15 (sequential part): every program of length <= L over an operation alphabet on a stack of
// cache-wrapped stores, compared step by step with an overlay-of-maps model.

import (
	"bytes"
	"fmt"
	"io"
	"runtime"
	"sync"
	"sync/atomic"

	"github.com/pokt-network/posmint/store/cachekv"
	"github.com/pokt-network/posmint/store/dbadapter"
	iavlstore "github.com/pokt-network/posmint/store/iavl"
	"github.com/pokt-network/posmint/store/prefix"
	stypes "github.com/pokt-network/posmint/store/types"
	"github.com/tendermint/iavl"
	dbm "github.com/tendermint/tm-db"
)

type c15op struct {
	kind       string // get has set del iter write push popw popd open step close
	key, val   []byte
	start, end []byte
	asc        bool
	slot       int
}

func (o c15op) String() string {
	switch o.kind {
	case "get", "has", "del":
		return fmt.Sprintf("%s(%q)", o.kind, o.key)
	case "set":
		return fmt.Sprintf("set(%q,%q)", o.key, o.val)
	case "pset":
		return fmt.Sprintf("parent.set(%q,%q)", o.key, o.val)
	case "pdel":
		return fmt.Sprintf("parent.del(%q)", o.key)
	case "pusht":
		return "push(traced)"
	case "iter", "open":
		d := "asc"
		if !o.asc {
			d = "desc"
		}
		return fmt.Sprintf("%s[%d](%q,%q,%s)", o.kind, o.slot, o.start, o.end, d)
	case "step", "close":
		return fmt.Sprintf("%s[%d]", o.kind, o.slot)
	}
	return o.kind
}

var (
	kA  = []byte("a")
	kA0 = []byte("a\x00")
	kB  = []byte("b")
	kC  = []byte("c")
)

func c15alphabet(tier string) []c15op {
	keys := [][]byte{kA, kA0, kB, kC}
	var ops []c15op
	for _, k := range keys {
		ops = append(ops, c15op{kind: "get", key: k})
	}
	ops = append(ops, c15op{kind: "has", key: kA0}, c15op{kind: "has", key: kB})
	for _, k := range keys {
		ops = append(ops, c15op{kind: "set", key: k, val: []byte("x")})
	}
	ops = append(ops, c15op{kind: "set", key: kA, val: []byte("y")}, c15op{kind: "set", key: kB, val: []byte{}})
	for _, k := range keys {
		ops = append(ops, c15op{kind: "del", key: k})
	}
	ranges := [][2][]byte{{nil, nil}, {nil, kB}, {kB, nil}, {kA, kA}, {kA0, kC}, {[]byte("a\x00\x00"), []byte("b\x00")}}
	for _, r := range ranges {
		ops = append(ops, c15op{kind: "iter", start: r[0], end: r[1], asc: true}, c15op{kind: "iter", start: r[0], end: r[1], asc: false})
	}
	ops = append(ops, c15op{kind: "write"}, c15op{kind: "push"}, c15op{kind: "popw"}, c15op{kind: "popd"})
	// a nested wrapper made with CacheWrapWithTrace (what a traced cache multistore does), and writes
	// that reach the parent from elsewhere while the only wrapper is clean (after Write the wrapper
	// shows the parent as it is)
	ops = append(ops, c15op{kind: "pusht"}, c15op{kind: "pset", key: kB, val: []byte("z")}, c15op{kind: "pdel", key: kA})
	ops = append(ops,
		c15op{kind: "open", slot: 0, asc: true}, c15op{kind: "open", slot: 0, asc: false},
		c15op{kind: "open", slot: 1, start: kA0, end: kC, asc: true}, c15op{kind: "open", slot: 1, start: kA0, end: kC, asc: false},
		c15op{kind: "step", slot: 0}, c15op{kind: "step", slot: 1}, c15op{kind: "close", slot: 0}, c15op{kind: "close", slot: 1})
	return ops
}

// overlay level: nil value with present key = tombstone
type level map[string][]byte

type openIter struct {
	it         kvIter
	level      int
	asc        bool
	start, end []byte
	lastKey    []byte
	// weakly-consistent iterator oracle: for every key, the set of values it had during the
	// iterator's lifetime ("" key absent represented by nil entry in hist[k] with absent=true)
	everPresent map[string][][]byte
	everAbsent  map[string]bool
	done        bool
}

type c15machine struct {
	parentKind string
	base       stypes.KVStore
	baseModel  kvMap
	stack      []stypes.CacheKVStore // stack[i] wraps stack[i-1] (or base)
	levels     []level
	iters      [2]*openIter
	err        string
	touched    bool // the bottom wrapper has been used since its creation / last Write
}

func newC15machine(parentKind string) *c15machine {
	m := &c15machine{parentKind: parentKind, baseModel: kvMap{}}
	switch parentKind {
	case "memdb":
		m.base = dbadapter.Store{DB: dbm.NewMemDB()}
	case "iavl":
		tree := iavl.NewMutableTree(dbm.NewMemDB(), 100)
		m.base = iavlstore.UnsafeNewStore(tree, 0, 0)
	case "prefix":
		under := dbadapter.Store{DB: dbm.NewMemDB()}
		under.Set([]byte("p"), []byte("outside-low"))
		under.Set([]byte("q/"), []byte("outside-high"))
		m.base = prefix.NewStore(under, []byte("p/"))
	}
	// preload: a and b exist in the parent; a\x00 and c do not
	m.base.Set(kA, []byte("pa"))
	m.base.Set(kB, []byte("pb"))
	m.baseModel["a"] = []byte("pa")
	m.baseModel["b"] = []byte("pb")
	m.stack = []stypes.CacheKVStore{cachekv.NewStore(m.base)}
	m.levels = []level{{}}
	return m
}

// view resolves the overlay down from level n.
func (m *c15machine) view(n int) kvMap {
	out := m.baseModel.clone()
	for i := 0; i <= n; i++ {
		for k, v := range m.levels[i] {
			if v == nil {
				delete(out, k)
			} else {
				out[k] = v
			}
		}
	}
	return out
}

func (m *c15machine) top() int { return len(m.stack) - 1 }

func (m *c15machine) anyOpen() bool { return m.iters[0] != nil || m.iters[1] != nil }

func (m *c15machine) fail(f string, a ...interface{}) { m.err = fmt.Sprintf(f, a...) }

// noteMutation records, for every open iterator, that key now has value v (nil = absent).
func (m *c15machine) noteMutation(key []byte, v []byte) {
	for _, oi := range m.iters {
		if oi == nil {
			continue
		}
		if v == nil {
			oi.everAbsent[string(key)] = true
		} else {
			oi.everPresent[string(key)] = append(oi.everPresent[string(key)], v)
		}
	}
}

// enabled says whether op respects the usage contracts (see DESIGN.md C15).
func (m *c15machine) enabled(o c15op) bool {
	switch o.kind {
	case "write", "push", "pusht", "popw", "popd":
		if m.anyOpen() {
			return false
		}
		if (o.kind == "popw" || o.kind == "popd") && len(m.stack) < 2 {
			return false
		}
		if (o.kind == "push" || o.kind == "pusht") && len(m.stack) >= 3 {
			return false
		}
	case "pset", "pdel":
		// somebody else writes to the parent: the wrapper caches what it has read, so this is only
		// legitimate while its cache is empty - nothing was done through it since it was created or
		// last written
		return !m.anyOpen() && len(m.stack) == 1 && !m.touched
	case "open":
		return m.iters[o.slot] == nil
	case "step", "close":
		return m.iters[o.slot] != nil
	}
	return true
}

func (m *c15machine) apply(o c15op) {
	defer func() {
		if r := recover(); r != nil {
			m.fail("%s panicked: %v", o, r)
		}
	}()
	t := m.top()
	st := m.stack[t]
	switch o.kind {
	case "pset", "pdel", "close", "popd":
	case "write":
		if t == 0 {
			m.touched = false
		} else {
			m.touched = true
		}
	default:
		m.touched = true
	}
	switch o.kind {
	case "get":
		got := st.Get(o.key)
		want := m.view(t)[string(o.key)]
		if !bytes.Equal(got, want) || (got == nil) != (want == nil) {
			m.fail("%s = %q, model %q", o, got, want)
		}
	case "has":
		got := st.Has(o.key)
		_, want := m.view(t)[string(o.key)]
		if got != want {
			m.fail("%s = %v, model %v", o, got, want)
		}
	case "set":
		// (tm-db contract: key and value are read-only for the caller after the call, so the
		// harness does not reuse the buffers it passed in)
		st.Set(o.key, append([]byte{}, o.val...))
		v := o.val
		if v == nil {
			v = []byte{}
		}
		m.levels[t][string(o.key)] = append([]byte{}, v...)
		m.noteMutation(o.key, m.levels[t][string(o.key)])
	case "del":
		st.Delete(o.key)
		m.levels[t][string(o.key)] = nil
		m.noteMutation(o.key, nil)
	case "iter":
		var it kvIter
		if o.asc {
			it = st.Iterator(o.start, o.end)
		} else {
			it = st.ReverseIterator(o.start, o.end)
		}
		got, e := drain(it, 64)
		if e != "" {
			m.fail("%s: %s", o, e)
			return
		}
		want := m.view(t).iterate(o.start, o.end, o.asc)
		if !pairsEqual(got, want) {
			m.fail("%s = [%s], model [%s]", o, pairsString(got), pairsString(want))
		}
	case "write":
		st.Write()
		m.flush(t)
	case "push":
		child := st.CacheWrap().(stypes.CacheKVStore)
		m.stack = append(m.stack, child)
		m.levels = append(m.levels, level{})
	case "pusht":
		child := st.CacheWrapWithTrace(io.Discard, nil).(stypes.CacheKVStore)
		m.stack = append(m.stack, child)
		m.levels = append(m.levels, level{})
	case "pset":
		m.base.Set(o.key, append([]byte{}, o.val...))
		m.baseModel[string(o.key)] = append([]byte{}, o.val...)
	case "pdel":
		m.base.Delete(o.key)
		delete(m.baseModel, string(o.key))
	case "popw":
		st.Write()
		m.flush(t)
		m.stack = m.stack[:t]
		m.levels = m.levels[:t]
	case "popd":
		m.stack = m.stack[:t]
		m.levels = m.levels[:t]
	case "open":
		oi := &openIter{level: t, asc: o.asc, start: o.start, end: o.end, everPresent: map[string][][]byte{}, everAbsent: map[string]bool{}}
		cur := m.view(t)
		for _, k := range [][]byte{kA, kA0, kB, kC} {
			if v, ok := cur[string(k)]; ok {
				oi.everPresent[string(k)] = append(oi.everPresent[string(k)], v)
			} else {
				oi.everAbsent[string(k)] = true
			}
		}
		if o.asc {
			oi.it = st.Iterator(o.start, o.end)
		} else {
			oi.it = st.ReverseIterator(o.start, o.end)
		}
		m.iters[o.slot] = oi
	case "step":
		m.stepIter(o, m.iters[o.slot], false)
	case "close":
		// drain the rest under the weak-consistency oracle, then close
		oi := m.iters[o.slot]
		for n := 0; !oi.done && m.err == "" && n < 16; n++ {
			m.stepIter(o, oi, true)
		}
		oi.it.Close()
		m.iters[o.slot] = nil
	}
}

// stepIter advances an open iterator by one element under the weakly-consistent iterator oracle:
// keys strictly monotone in the iteration direction and inside the domain; a yielded value is one
// the key had at some moment of the iterator's life; a key that was present with one unchanged
// value during the whole life (and lies ahead of the cursor) must not be skipped.
func (m *c15machine) stepIter(o c15op, oi *openIter, draining bool) {
	if oi.done {
		return
	}
	if !oi.it.Valid() {
		oi.done = true
		// completeness: every key always present (never absent) during the life must have been seen
		m.checkSkipped(o, oi, nil)
		return
	}
	k := append([]byte(nil), oi.it.Key()...)
	v := append([]byte(nil), oi.it.Value()...)
	if !inDomain(k, oi.start, oi.end) {
		m.fail("%s: open iterator yielded %q outside its domain", o, k)
		return
	}
	if oi.lastKey != nil {
		c := bytes.Compare(k, oi.lastKey)
		if (oi.asc && c <= 0) || (!oi.asc && c >= 0) {
			m.fail("%s: open iterator yielded %q after %q (not strictly monotone)", o, k, oi.lastKey)
			return
		}
	}
	ok := false
	for _, pv := range oi.everPresent[string(k)] {
		if bytes.Equal(pv, v) {
			ok = true
		}
	}
	if !ok {
		m.fail("%s: open iterator yielded %q=%q, a value the key never had during the iterator's life", o, k, v)
		return
	}
	m.checkSkipped(o, oi, k)
	oi.lastKey = k
	oi.it.Next()
}

// checkSkipped: keys strictly between lastKey and cur (or to the end if cur == nil) that were
// never absent during the iterator's life must have been yielded.
func (m *c15machine) checkSkipped(o c15op, oi *openIter, cur []byte) {
	for _, k := range [][]byte{kA, kA0, kB, kC} {
		if !inDomain(k, oi.start, oi.end) || oi.everAbsent[string(k)] || len(oi.everPresent[string(k)]) == 0 {
			continue
		}
		after := oi.lastKey == nil || (oi.asc && bytes.Compare(k, oi.lastKey) > 0) || (!oi.asc && bytes.Compare(k, oi.lastKey) < 0)
		before := cur == nil || (oi.asc && bytes.Compare(k, cur) < 0) || (!oi.asc && bytes.Compare(k, cur) > 0)
		if after && before {
			m.fail("%s: open iterator skipped %q, which was present during its whole life", o, k)
			return
		}
	}
}

// flush applies level t onto level t-1 (or the base model) and clears it.
func (m *c15machine) flush(t int) {
	for k, v := range m.levels[t] {
		if t == 0 {
			if v == nil {
				delete(m.baseModel, k)
			} else {
				m.baseModel[k] = v
			}
		} else {
			m.levels[t-1][k] = v
		}
	}
	m.levels[t] = level{}
}

// finalCheck: parent content equals the model (unchanged until Write, overlay view after it), and
// every level of the stack reads like its model view (wrapper clean after Write, re-reads hit the parent).
func (m *c15machine) finalCheck() {
	defer func() {
		if r := recover(); r != nil {
			m.fail("final check panicked: %v", r)
		}
	}()
	for s := 0; s < 2; s++ {
		if m.iters[s] != nil {
			m.apply(c15op{kind: "close", slot: s})
			if m.err != "" {
				return
			}
		}
	}
	got, e := drain(m.base.Iterator(nil, nil), 64)
	if e != "" {
		m.fail("final: base iteration: %s", e)
		return
	}
	if want := m.baseModel.iterate(nil, nil, true); !pairsEqual(got, want) {
		m.fail("final: parent holds [%s], model [%s]", pairsString(got), pairsString(want))
		return
	}
	for t := len(m.stack) - 1; t >= 0; t-- {
		for _, asc := range []bool{true, false} {
			var it kvIter
			if asc {
				it = m.stack[t].Iterator(nil, nil)
			} else {
				it = m.stack[t].ReverseIterator(nil, nil)
			}
			got, e := drain(it, 64)
			if e != "" {
				m.fail("final: level %d iteration: %s", t, e)
				return
			}
			if want := m.view(t).iterate(nil, nil, asc); !pairsEqual(got, want) {
				m.fail("final: level %d (asc=%v) iterates [%s], model [%s]", t, asc, pairsString(got), pairsString(want))
				return
			}
		}
		for _, k := range [][]byte{kA, kA0, kB, kC} {
			got := m.stack[t].Get(k)
			want := m.view(t)[string(k)]
			if !bytes.Equal(got, want) || (got == nil) != (want == nil) {
				m.fail("final: level %d get(%q) = %q, model %q", t, k, got, want)
				return
			}
		}
	}
}

type c15stats struct {
	programs, ops, skipped int64
	outcomes               sync.Map
}

// runC15Program executes one program; returns the failure description ("" if none).
func runC15Program(parent string, alpha []c15op, prog []int) (string, bool) {
	m := newC15machine(parent)
	for _, i := range prog {
		o := alpha[i]
		if !m.enabled(o) {
			return "", false
		}
		m.apply(o)
		if m.err != "" {
			return m.err, true
		}
	}
	m.finalCheck()
	return m.err, true
}

type c15fail struct {
	Parent  string   `json:"parent"`
	Program []string `json:"program"`
	Idx     []int    `json:"idx"`
	What    string   `json:"what"`
}

// exploreC15 enumerates all programs of length exactly L (every prefix is checked on the way,
// since each op is compared with the model when it runs).
func exploreC15(parent string, alpha []c15op, L int, onFail func(c15fail)) (programs, ops, prefixes, nontrivial int64) {
	A := len(alpha)
	var wg sync.WaitGroup
	sem := make(chan struct{}, runtime.NumCPU())
	var np, no, nn, nt int64
	for first := 0; first < A; first++ {
		wg.Add(1)
		sem <- struct{}{}
		go func(first int) {
			defer wg.Done()
			defer func() { <-sem }()
			prog := make([]int, L)
			prog[0] = first
			var rec func(pos int)
			var lp, lo, ln, lt int64
			rec = func(pos int) {
				ln++ // an enabled prefix = one state of the (unmerged) program tree
				if pos == L {
					what, ran := runC15Program(parent, alpha, prog)
					if ran {
						lp++
						lo += int64(L)
						if c15nontrivial(alpha, prog) {
							lt++
						}
					}
					if what != "" {
						var names []string
						for _, i := range prog {
							names = append(names, alpha[i].String())
						}
						onFail(c15fail{parent, names, append([]int(nil), prog...), what})
					}
					return
				}
				for a := 0; a < A; a++ {
					prog[pos] = a
					// prune programs whose prefix is not enabled (cheap pre-check by dry run of the contract only)
					if !c15prefixEnabled(alpha, prog[:pos+1]) {
						continue
					}
					rec(pos + 1)
				}
			}
			if c15prefixEnabled(alpha, prog[:1]) {
				rec(1)
			}
			atomic.AddInt64(&np, lp)
			atomic.AddInt64(&no, lo)
			atomic.AddInt64(&nn, ln)
			atomic.AddInt64(&nt, lt)
		}(first)
	}
	wg.Wait()
	return np, no, nn, nt
}

// c15nontrivial: the program observes (get/has/iteration) after it has mutated (set/delete).
func c15nontrivial(alpha []c15op, prog []int) bool {
	mutated := false
	for _, i := range prog {
		switch alpha[i].kind {
		case "set", "del":
			mutated = true
		case "get", "has", "iter", "step", "open":
			if mutated {
				return true
			}
		}
	}
	return false
}

// c15prefixEnabled evaluates the usage contract on a prefix without touching a store.
func c15prefixEnabled(alpha []c15op, prog []int) bool {
	depth := 1
	var open [2]bool
	for _, i := range prog {
		o := alpha[i]
		switch o.kind {
		case "pset", "pdel":
			if open[0] || open[1] || depth != 1 {
				return false
			}
		case "write", "push", "pusht", "popw", "popd":
			if open[0] || open[1] {
				return false
			}
			switch o.kind {
			case "push", "pusht":
				if depth >= 3 {
					return false
				}
				depth++
			case "popw", "popd":
				if depth < 2 {
					return false
				}
				depth--
			}
		case "open":
			if open[o.slot] {
				return false
			}
			open[o.slot] = true
		case "step":
			if !open[o.slot] {
				return false
			}
		case "close":
			if !open[o.slot] {
				return false
			}
			open[o.slot] = false
		}
	}
	return true
}
