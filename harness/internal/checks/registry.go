package checks

import "fmt"

// Registry maps property ids to check entry points.
var Registry = map[string]func(tier string) int{
	"C18": C18,
}

// Worker is the entry point of explorer worker subprocesses.
func Worker(args []string) int {
	return exploreWorker(args)
}

// Replay re-executes a replay file.
func Replay(prop, path string) int {
	if p, ok := histProps[prop]; ok {
		return replayHist(p, path)
	}
	fmt.Println("replay not implemented for", prop)
	return 2
}
