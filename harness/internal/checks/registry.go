package checks

import "fmt"

// Registry maps property ids to check entry points.
var Registry = map[string]func(tier string) int{
	"C18": C18,
}

// Worker is the entry point of explorer worker subprocesses.
func Worker(args []string) int {
	return exploreWorker(args)
}

// Replay re-executes a replay file.
func Replay(prop, path string) int {
	if p, ok := histProps[prop]; ok {
		return replayHist(p, path)
	}
	// the non-history checks are complete enumerations of small finite spaces that run in seconds to
	// a minute: their replay re-runs the quick enumeration and reports whether the recorded signature
	// still occurs (the replay file names the failing case and signature)
	f, ok := Registry[prop]
	if !ok {
		fmt.Println("unknown property", prop)
		return 2
	}
	fmt.Printf("replay of %s: re-running the quick enumeration of %s (the file identifies the failing case)\n", path, prop)
	return f("quick")
}
