package checks

import "fmt"

// Registry maps property ids to check entry points.
var Registry = map[string]func(tier string) int{
	"C18": C18,
}

// Worker is the entry point of explorer worker subprocesses.
func Worker(args []string) int {
	fmt.Println("no worker registered")
	return 2
}

// Replay re-executes a replay file.
func Replay(prop, path string) int {
	fmt.Println("replay not implemented for", prop)
	return 2
}
