package checks

// C01 — replicated execution is deterministic. Every explored history is executed on several
// independently constructed instances (different mount order, restarts after every commit / once
// in the middle, interleaved CheckTx/Simulate/Query traffic, other pruning options) and every
// consensus-relevant response and app hash is compared with the baseline instance.

import (
	"bytes"
	"encoding/json"
	"fmt"
	"os"
	"os/exec"
	"path/filepath"
	"strings"
	"time"

	abci "github.com/tendermint/tendermint/abci/types"

	"verif/internal/chain"
	"verif/internal/ev"
)

type c01variant struct {
	name      string
	mountPerm int
	pruning   [2]int64
	restart   string // "", "every", "middle"
	traffic   bool
	// node-local settings used by successive reopenings (cycled); empty = the initial ones
	reopen []c01reopen
}

type c01reopen struct {
	pruning [2]int64
	lazy    bool
}

func c01variants(tier string) []c01variant {
	vs := []c01variant{
		{name: "B:independent-instance", mountPerm: 77, pruning: [2]int64{0, 1}},
		{name: "R:restart-after-every-commit", mountPerm: 13, pruning: [2]int64{0, 1}, restart: "every"},
		{name: "R:restart-in-the-middle", pruning: [2]int64{0, 1}, restart: "middle"},
		{name: "Q:interleaved-check-simulate-query", pruning: [2]int64{0, 1}, traffic: true},
		{name: "P:prune-everything", pruning: [2]int64{0, 0}},
		{name: "P:prune-everything+restart", pruning: [2]int64{0, 0}, restart: "every"},
		{name: "P:keep-recent-1-every-2", pruning: [2]int64{1, 2}, mountPerm: 5},
		// an operator may change node-local settings across a restart: lazy loading, pruning window
		{name: "Q+R:historical-queries-and-restarts", pruning: [2]int64{0, 1}, restart: "every", traffic: true},
		{name: "R:reopen-lazy", pruning: [2]int64{1, 3}, restart: "every", reopen: []c01reopen{{[2]int64{1, 3}, true}}},
		{name: "R:reopen-with-larger-window", pruning: [2]int64{0, 0}, restart: "middle", reopen: []c01reopen{{[2]int64{1, 0}, false}}},
		{name: "R:reopen-lazy+changing-pruning", pruning: [2]int64{1, 3}, restart: "every", reopen: []c01reopen{{[2]int64{0, 0}, false}, {[2]int64{2, 0}, true}, {[2]int64{0, 2}, true}, {[2]int64{1, 3}, false}}},
	}
	if tier == "thorough" {
		vs = append(vs, c01variant{name: "P:syncable", pruning: [2]int64{100, 10000}},
			c01variant{name: "Q+R:traffic-and-restarts", pruning: [2]int64{0, 2}, restart: "every", traffic: true})
	}
	return vs
}

// trafficAround returns read-only events inserted before and after e.
func trafficAround(e chain.Event) (pre, post []chain.Event) {
	accKey := append([]byte{0x01}, chain.Addr(3)...)
	pre = append(pre,
		chain.Event{Kind: "query", Path: "/store/auth/key", Data: accKey},
		chain.Event{Kind: "query", Path: "/custom/gov/acl"},
		// queries whose keepers fetch module accounts (created on first use when absent)
		chain.Event{Kind: "query", Path: "/custom/gov/dao"},
		chain.Event{Kind: "query", Path: "/custom/gov/daoOwner"},
		chain.Event{Kind: "query", Path: "/custom/pos/stakedPool"},
		chain.Event{Kind: "query", Path: "/custom/pos/unstakedPool"},
	)
	if (e.Kind == "tx") && e.Tx != nil {
		t := *e.Tx
		t.Entropy = 77001 // a different transaction with the same content
		pre = append(pre, chain.Event{Kind: "check", Tx: &t}, chain.Event{Kind: "simulate", Tx: &t})
		post = append(post, chain.Event{Kind: "check", Tx: &t})
	}
	other := chain.TxSpec{Msg: "send", From: 4, To: 3, Amount: 9, Entropy: 77002}
	// a parameter change by its owner that is only ever simulated and checked, never delivered
	sim := chain.TxSpec{Msg: "change_param", From: 4, Key: "pos/MaxValidators", Val: `"1"`, Entropy: 77003}
	post = append(post, chain.Event{Kind: "simulate", Tx: &sim}, chain.Event{Kind: "check", Tx: &sim})
	post = append(post,
		chain.Event{Kind: "simulate", Tx: &other},
		chain.Event{Kind: "query", Path: "/store/pos/subspace", Data: []byte{0x21}},
		chain.Event{Kind: "query", Path: "/app/version"},
		chain.Event{Kind: "query", Path: "/store/pos/key", Data: []byte{0x01}, Prove: true},
		// historical reads: a custom query and a store query one and two blocks back
		chain.Event{Kind: "query", Path: "/custom/pos/validators", Data: []byte(`{"Page":1,"Limit":100}`), Height: -1},
		chain.Event{Kind: "query", Path: "/custom/auth/supply", Height: -2},
		chain.Event{Kind: "query", Path: "/custom/pos/validator", Data: []byte(fmt.Sprintf(`{"Address":"%s"}`, chain.Addr(0))), Height: -2},
		chain.Event{Kind: "query", Path: "/custom/pos/validators", Data: []byte(`{"Page":1,"Limit":100}`), Height: -3},
		chain.Event{Kind: "query", Path: "/store/auth/key", Data: append([]byte{0x01}, chain.Addr(3)...), Height: -1},
	)
	return
}

type c01trace struct {
	init   string
	blocks []string
	infos  []string
}

func canonMasked(r chain.BlockResult) string {
	if r.Panic != "" {
		p := r.Panic
		if i := strings.Index(p, "\n"); i > 0 {
			p = p[:i]
		}
		if len(p) > 120 {
			p = p[:120]
		}
		r.Panic = p
	}
	return r.Canon()
}

func runC01variant(cfg chain.Config, v *c01variant, blocks []chain.Block) (tr c01trace, transitions int, hashes []uint64) {
	if v != nil {
		cfg.MountPerm = v.mountPerm
		cfg.Pruning = v.pruning
	}
	d := chain.NewDriver(cfg)
	defer func() { d.Close() }()
	tr.init = chain.UpdatesString(d.InitVals)
	reopens := 0
	for i, b := range blocks {
		if d.Dead {
			break
		}
		nb := b
		if v != nil && v.traffic {
			nb.Events = nil
			// traffic between blocks and around every event
			nb.Events = append(nb.Events, chain.Event{Kind: "query", Path: "/custom/pos/validators", Data: []byte(`{"Page":1,"Limit":100}`)})
			for _, e := range b.Events {
				pre, post := trafficAround(e)
				nb.Events = append(nb.Events, pre...)
				nb.Events = append(nb.Events, e)
				nb.Events = append(nb.Events, post...)
			}
			if len(b.Events) == 0 {
				pre, post := trafficAround(chain.Event{})
				nb.Events = append(nb.Events, pre...)
				nb.Events = append(nb.Events, post...)
			}
		}
		r := d.RunBlock(nb, nil)
		transitions += 3 + len(nb.Events)
		tr.blocks = append(tr.blocks, canonMasked(r))
		if len(r.AppHash) >= 8 {
			var x uint64
			for k := 0; k < 8; k++ {
				x |= uint64(r.AppHash[k]) << (8 * uint(k))
			}
			hashes = append(hashes, x)
		}
		if d.Dead {
			break
		}
		info := d.App.Info(abci.RequestInfo{})
		tr.infos = append(tr.infos, fmt.Sprintf("%d/%X", info.LastBlockHeight, info.LastBlockAppHash))
		if !bytes.Equal(info.LastBlockAppHash, r.AppHash) || info.LastBlockHeight != d.Height {
			tr.infos[len(tr.infos)-1] += "!=commit"
		}
		if v != nil && (v.restart == "every" || v.restart == "middle" && i == len(blocks)/2) {
			if len(v.reopen) > 0 {
				ro := v.reopen[reopens%len(v.reopen)]
				reopens++
				func() {
					defer func() {
						if r := recover(); r != nil {
							tr.infos[len(tr.infos)-1] += fmt.Sprintf("|reopen-panicked:%.200v", r)
							d.Dead = true
						}
					}()
					d.RestartWith(ro.pruning, ro.lazy)
				}()
				if d.Dead {
					break
				}
			} else {
				d.Restart()
			}
			info2 := d.App.Info(abci.RequestInfo{})
			if info2.LastBlockHeight != info.LastBlockHeight || !bytes.Equal(info2.LastBlockAppHash, info.LastBlockAppHash) {
				tr.infos[len(tr.infos)-1] += fmt.Sprintf("|after-reopen:%d/%X", info2.LastBlockHeight, info2.LastBlockAppHash)
			}
		}
	}
	return
}

func diffPart(a, b string) string {
	pa, pb := strings.Split(a, "|"), strings.Split(b, "|")
	for i := range pa {
		if i >= len(pb) || pa[i] != pb[i] {
			f := pa[i]
			if j := strings.IndexAny(f, "={"); j > 0 {
				f = f[:j]
			}
			return f
		}
	}
	return "length"
}

// c01freshJob is what the fresh-process variant hands to its child process.
type c01freshJob struct {
	Cfg    chain.Config  `json:"cfg"`
	Blocks []chain.Block `json:"blocks"`
}

// C01Fresh (child side): runs the baseline on the job read from path and prints its trace as JSON.
func C01Fresh(path string) int {
	bz, err := os.ReadFile(path)
	if err != nil {
		fmt.Println(err)
		return 2
	}
	var job c01freshJob
	if err := json.Unmarshal(bz, &job); err != nil {
		fmt.Println(err)
		return 2
	}
	tr, _, _ := runC01variant(job.Cfg, nil, job.Blocks)
	out, _ := json.Marshal(map[string]interface{}{"init": tr.init, "blocks": tr.blocks})
	fmt.Println("C01FRESH:" + string(out))
	return 0
}

// runC01fresh (parent side): the same history on an instance in a brand-new process, so that state
// a process accumulates outside the application object (package-level variables) cannot hide.
func runC01fresh(cfg chain.Config, blocks []chain.Block) (tr c01trace, err error) {
	bin := os.Getenv("VCHECK_BIN")
	if bin == "" {
		bin = os.Args[0]
	}
	dir := filepath.Join(ev.Root, ".work")
	f, err := os.CreateTemp(dir, "c01fresh-*.json")
	if err != nil {
		return tr, err
	}
	defer os.Remove(f.Name())
	bz, _ := json.Marshal(c01freshJob{cfg, blocks})
	f.Write(bz)
	f.Close()
	outb, err := exec.Command(bin, "_c01fresh", f.Name()).Output()
	if err != nil {
		return tr, fmt.Errorf("child failed: %v: %.200s", err, outb)
	}
	for _, ln := range strings.Split(string(outb), "\n") {
		if strings.HasPrefix(ln, "C01FRESH:") {
			var o struct {
				Init   string   `json:"init"`
				Blocks []string `json:"blocks"`
			}
			if err := json.Unmarshal([]byte(ln[len("C01FRESH:"):]), &o); err != nil {
				return tr, err
			}
			tr.init, tr.blocks = o.Init, o.Blocks
			return tr, nil
		}
	}
	return tr, fmt.Errorf("no trace in the child's output: %.200s", outb)
}

// RunC01History runs the differential oracle for one history.
func RunC01History(cfg chain.Config, prelude, blocks []chain.Block, tier string) HistResult {
	res := HistResult{}
	all := append(append([]chain.Block{}, prelude...), blocks...)
	base, n, hs := runC01variant(cfg, nil, all)
	res.Transitions += n
	res.Hashes = hs
	for _, in := range base.infos {
		if strings.Contains(in, "!=commit") {
			res.Findings = append(res.Findings, Finding{"C01", "C01|info-differs-from-commit", "Info after Commit reports " + in})
		}
	}
	res.Outcome = fmt.Sprintf("%d", len(base.blocks))
	for _, b := range base.blocks {
		if strings.Contains(b, "tx0{0,") || !strings.Contains(b, "upd=|") {
			res.Nontrivial = true
		}
		res.Outcome += fmt.Sprintf(",%x", hashStr(b)&0xffff)
	}
	for _, v := range c01variants(tier) {
		v := v
		tr, n, _ := runC01variant(cfg, &v, all)
		res.Transitions += n
		if tr.init != base.init {
			res.Findings = append(res.Findings, Finding{"C01", "C01|" + v.name + "|initchain-validators", fmt.Sprintf("InitChain validators differ: %s vs %s", tr.init, base.init)})
			continue
		}
		for i := range base.blocks {
			if i >= len(tr.blocks) {
				res.Findings = append(res.Findings, Finding{"C01", "C01|" + v.name + "|stopped-early", fmt.Sprintf("variant stopped after %d blocks, baseline ran %d", len(tr.blocks), len(base.blocks))})
				break
			}
			if tr.blocks[i] != base.blocks[i] {
				part := diffPart(base.blocks[i], tr.blocks[i])
				res.Findings = append(res.Findings, Finding{"C01", "C01|" + v.name + "|" + part, fmt.Sprintf("block %d differs in %s: baseline %.400s ... variant %.400s", i+1, part, base.blocks[i], tr.blocks[i])})
				break
			}
		}
		for i := range tr.infos {
			if strings.Contains(tr.infos[i], "after-reopen") || strings.Contains(tr.infos[i], "!=commit") {
				res.Findings = append(res.Findings, Finding{"C01", "C01|" + v.name + "|info", "Info: " + tr.infos[i]})
				break
			}
		}
	}
	if cfg.FreshProc {
		// F: the same requests to an instance in a fresh operating-system process
		tr, err := runC01fresh(cfg, all)
		switch {
		case err != nil:
			res.Findings = append(res.Findings, Finding{"C01", "C01|F:fresh-process|harness", "fresh-process run failed: " + err.Error()})
		case tr.init != base.init:
			res.Findings = append(res.Findings, Finding{"C01", "C01|F:fresh-process|initchain-validators", fmt.Sprintf("InitChain validators differ: %s vs %s", tr.init, base.init)})
		default:
			for i := range base.blocks {
				if i >= len(tr.blocks) {
					res.Findings = append(res.Findings, Finding{"C01", "C01|F:fresh-process|stopped-early", fmt.Sprintf("fresh-process instance stopped after %d blocks, baseline ran %d", len(tr.blocks), len(base.blocks))})
					break
				}
				if tr.blocks[i] != base.blocks[i] {
					part := diffPart(base.blocks[i], tr.blocks[i])
					res.Findings = append(res.Findings, Finding{"C01", "C01|F:fresh-process|" + part, fmt.Sprintf("block %d differs in %s between an instance in a process that has run other instances before and an instance in a fresh process: %.400s ... %.400s", i+1, part, base.blocks[i], tr.blocks[i])})
					break
				}
			}
		}
		res.Transitions += n
	}
	return res
}

// c01alphabet: union of the staking alphabet with governance, invalid and multi-event blocks.
func c01alphabet() []Choice {
	cs := stakingAlphabet()
	cs = append(cs,
		txB("change(pos/StakeMinimum,owner)", chain.TxSpec{Msg: "change_param", From: 4, Key: "pos/StakeMinimum", Val: `"1500000"`}),
		txB("change(pos/MaxValidators=1,owner)", chain.TxSpec{Msg: "change_param", From: 4, Key: "pos/MaxValidators", Val: `"1"`}),
		txB("change(non-owner)", chain.TxSpec{Msg: "change_param", From: 3, Key: "pos/StakeMinimum", Val: `"1500000"`}),
		txB("dao_transfer(owner,5)", chain.TxSpec{Msg: "dao_transfer", From: 4, To: 3, Amount: 5}),
		txB("dao_burn(owner,5)", chain.TxSpec{Msg: "dao_burn", From: 4, Amount: 5}),
		txB("send(overdraft)", chain.TxSpec{Msg: "send", From: 3, To: 2, Amount: 1000 * min}),
		txB("send(bad sig)", chain.TxSpec{Msg: "send", From: 3, To: 2, Amount: 5, SignBy: 2 + 1}),
		txB("raw:garbage", chain.TxSpec{Msg: "raw", Raw: c11rawTx("garbage")}),
		txB("dao_transfer(-1) handler panic", chain.TxSpec{Msg: "dao_transfer", From: 4, To: 2, Amount: -1}),
		Choice{Label: "dt=2s+miss(k1)", Block: chain.Block{DT: 2 * time.Second, Missed: []int{1}}},
		Choice{Label: "evidence(k0,old)", Block: chain.Block{Evidence: []chain.Evidence{{Val: 0, HeightAgo: 1, Age: 121 * time.Second}}}},
		Choice{Label: "[stake(k2),stake(k3),unstake(k1)]", Block: chain.Block{Events: []chain.Event{
			{Kind: "tx", Tx: &chain.TxSpec{Msg: "stake", From: 2, Amount: 2 * min}},
			{Kind: "tx", Tx: &chain.TxSpec{Msg: "stake", From: 3, Amount: 2 * min}},
			{Kind: "tx", Tx: &chain.TxSpec{Msg: "unstake", From: 1}}}}},
		Choice{Label: "[unstake(k0),unstake(k1)]", Block: chain.Block{Events: []chain.Event{
			{Kind: "tx", Tx: &chain.TxSpec{Msg: "unstake", From: 0}},
			{Kind: "tx", Tx: &chain.TxSpec{Msg: "unstake", From: 1}}}}},
		Choice{Label: "miss(k0,k1)", Block: chain.Block{Missed: []int{0, 1}}},
		Choice{Label: "[award(k3),burn(k1),send]", Block: chain.Block{Events: []chain.Event{
			{Kind: "award", Who: 3, Amount: 50}, {Kind: "burn", Who: 1, Sev: "0.25"},
			{Kind: "tx", Tx: &chain.TxSpec{Msg: "send", From: 3, To: 4, Amount: 17}}}}},
		// several queued awards for addresses without an account (minted in one BeginBlock: the order
		// in which the accounts are created and the queue entries removed shapes two IAVL trees)
		Choice{Label: "[award(k9..k14 fresh)]", Block: chain.Block{Events: []chain.Event{
			{Kind: "award", Who: 9, Amount: 4}, {Kind: "award", Who: 10, Amount: 5}, {Kind: "award", Who: 11, Amount: 6},
			{Kind: "award", Who: 12, Amount: 7}, {Kind: "award", Who: 13, Amount: 8}, {Kind: "award", Who: 14, Amount: 9}}}},
	)
	return cs
}

func c01genesis() []chain.Config {
	a := baseCfg()
	b := baseCfg() // three validators with equal stakes, MaxValidators 2 (cut-off with a tie)
	b.Vals = []chain.GenVal{{Key: 0, Stake: 2 * min}, {Key: 1, Stake: 2 * min}, {Key: 3, Stake: 2 * min}}
	pb := *b.Pos
	pb.MaxValidators = 2
	b.Pos = &pb
	c := baseCfg() // module route: default parameters forced by AppModule.InitGenesis
	c.Pos = nil
	c.Vals = []chain.GenVal{{Key: 0, Stake: 2 * min}}
	return []chain.Config{a, b, c}
}

func init() {
	registerHist(&HistProp{
		ID: "C01",
		Scenarios: func(tier string) []Scenario {
			gs := c01genesis()
			k, d := 2, 3
			if tier == "thorough" {
				k, d = 3, 3 // every block of the history deviates: ~50k histories x 10 instances for the main scenario
			}
			scs := []Scenario{{Name: "2val-custom-params", Cfg: gs[0], Alphabet: c01alphabet(), K: k, D: d, Tail: 1}}
			scs = append(scs, Scenario{Name: "3val-equal-maxvals2", Cfg: gs[1], Alphabet: c01alphabet(), K: k - 1, D: d, Tail: 1})
			scs = append(scs, Scenario{Name: "1val-module-genesis", Cfg: gs[2], Alphabet: c01alphabet(), K: k - 1, D: d, Tail: 1})
			// several validators entering / leaving the set in one block (order of the update batch)
			many := append(setAlphabet(),
				multiB("[unstake(k0),unstake(k1),unstake(k2)]", txE(chain.TxSpec{Msg: "unstake", From: 0}), txE(chain.TxSpec{Msg: "unstake", From: 1}), txE(chain.TxSpec{Msg: "unstake", From: 2})),
				multiB("[burn(k0,0.9),burn(k1,0.9),burn(k2,0.9)]", chain.Event{Kind: "burn", Who: 0, Sev: "0.9"}, chain.Event{Kind: "burn", Who: 1, Sev: "0.9"}, chain.Event{Kind: "burn", Who: 2, Sev: "0.9"}),
				Choice{Label: "miss(k0,k1,k2)", Block: chain.Block{Missed: []int{0, 1, 2}}},
				Choice{Label: "evidence(k0,k1,k2)", Block: chain.Block{Evidence: []chain.Evidence{{Val: 0, HeightAgo: 1, Age: time.Second}, {Val: 1, HeightAgo: 1, Age: time.Second}, {Val: 2, HeightAgo: 1, Age: time.Second}}}},
			)
			scs = append(scs, Scenario{Name: "4val-ordered-max3-many-leavers", Cfg: cfg4ordered(), Alphabet: many, K: k, D: d - 1, Tail: 1})
			all4 := cfg4ordered()
			p4 := *all4.Pos
			p4.MaxValidators = 10
			all4.Pos = &p4
			scs = append(scs, Scenario{Name: "4val-all-in-set-many-leavers", Cfg: all4, Alphabet: many, K: k, D: d - 1, Tail: 1})
			// a single miss jails: jailed validators that are slashed, queried at past heights and read again
			scs = append(scs, Scenario{Name: "3val-jail-fast", Cfg: cfgJailFast(), Alphabet: jailFastAlphabet(), K: k, D: d, Tail: 2})
			// a block gas limit that the second or third transaction of a block crosses (the limit lives in
			// the consensus parameters, which a reopened instance has to find again)
			gl := gs[0]
			gl.MaxBlockGas = 150000
			gl.FreshProc = true // every history of this scenario also runs in a brand-new process
			send := func(from, to int) chain.Event { return txE(chain.TxSpec{Msg: "send", From: from, To: to, Amount: 1}) }
			gasAlpha := []Choice{
				multiB("[send,send,send]", send(3, 2), send(4, 2), send(2, 3)),
				multiB("[stake,send,send,send]", txE(chain.TxSpec{Msg: "stake", From: 2, Amount: min}), send(3, 2), send(4, 2), send(3, 4)),
				multiB("[send,send]", send(3, 2), send(4, 2)),
				txB("send", chain.TxSpec{Msg: "send", From: 3, To: 2, Amount: 1}),
				multiB("[unstake(k0),send,send,send,send]", txE(chain.TxSpec{Msg: "unstake", From: 0}), send(3, 2), send(4, 2), send(3, 4), send(4, 3)),
			}
			scs = append(scs, Scenario{Name: "2val-block-gas-limit", Cfg: gl, Alphabet: gasAlpha, K: 2, D: 2, Tail: 1})
			// a limit no block of the alphabet reaches: gas must not carry over from block to block, from
			// instance to instance or from earlier work of the process
			gh := gl
			gh.MaxBlockGas = 5000000
			scs = append(scs, Scenario{Name: "2val-block-gas-limit-never-reached", Cfg: gh, Alphabet: gasAlpha, K: 2, D: 2, Tail: 1})
			// a genesis with history, as a state export produces it: signing infos and missed-block
			// arrays for the validators and for six former validators
			hist := gs[0]
			hist.FreshProc = true
			hist.GenHistory = []int{0, 1, 5, 6, 7, 8, 9, 10}
			scs = append(scs, Scenario{Name: "2val-genesis-with-signing-history", Cfg: hist, Alphabet: c01alphabet(), K: 1, D: d - 1, Tail: 1})
			return scs
		},
		Run: func(sc *Scenario, blocks []chain.Block) HistResult {
			tier := "quick"
			if sc.K >= 3 || os.Getenv("VERIF_TIER_INTERNAL") == "thorough" {
				tier = "thorough"
			}
			return RunC01History(sc.Cfg, sc.Prelude, blocks, tier)
		},
		Rule:   "all histories of D blocks (+1) with at most K deviating blocks over the union alphabet (staking, slashing, evidence, awards/burns, governance, invalid and panicking transactions, multi-event blocks) for 3 genesis states; each history is executed on a baseline instance and on 10-12 variant instances (different store mount order, restart after every commit, restart once, reopening with lazy loading / a larger pruning window / changing pruning settings, interleaved CheckTx/Simulate/Query traffic, PruneEverything with and without restarts, keepRecent=1/keepEvery=2, syncable) and every InitChain/BeginBlock/DeliverTx/EndBlock/Commit/Info response (Log excluded) is compared byte for byte; evaluations = histories, each validated on all variants",
		QuickS: 280, ThoroughS: 1700,
		Assume: []string{"Go map iteration order inside the application differs between instances by Go's runtime randomisation but is not enumerated", "Log strings are excluded (recovered panics embed stack traces)"},
	})
}
