package checks

import (
	"fmt"
	"time"

	sdk "github.com/pokt-network/posmint/types"

	"verif/internal/chain"
)

const min = chain.MinStake

// base configuration: validators key0 (2·min) and key1 (3·min); accounts key0..key4 with 5·min
// each; key4 owns every parameter and the DAO. Small custom pos parameters so that unstaking
// maturity, downtime and jail expiry are reachable within a few blocks (the same values are
// reachable on a live chain through MsgChangeParam).
func baseCfg() chain.Config {
	pp := chain.PosParams{
		UnstakingTime: 3 * time.Second, MaxValidators: 10, StakeMinimum: min, MaxEvidenceAge: 120 * time.Second,
		Window: 2, MinSignedNum: 1, MinSignedDen: 2, JailDuration: 2 * time.Second,
		SlashDoubleStr: "0.05", SlashDowntimeStr: "0.01",
	}
	return chain.Config{
		Vals:      []chain.GenVal{{Key: 0, Stake: 2 * min}, {Key: 1, Stake: 3 * min}},
		Accs:      []chain.GenAcc{{Key: 0, Balance: 5 * min}, {Key: 1, Balance: 5 * min}, {Key: 2, Balance: 5 * min}, {Key: 3, Balance: 5 * min}, {Key: 4, Balance: 5 * min}},
		DAOTokens: 1000000, Owner: 4, DAOOwner: 4, Pos: &pp, Pruning: [2]int64{0, 1},
	}
}

// cfg3equal: three validators with equal stakes, MaxValidators = 2 (cut-off inside a tie), k3 is a
// fourth candidate.
func cfg3equal() chain.Config {
	c := baseCfg()
	c.Vals = []chain.GenVal{{Key: 0, Stake: 2 * min}, {Key: 1, Stake: 2 * min}, {Key: 2, Stake: 2 * min}}
	p := *c.Pos
	p.MaxValidators = 2
	c.Pos = &p
	return c
}

// cfg4ordered: four validators with strictly ordered stakes (one just below a power boundary),
// MaxValidators = 3.
func cfg4ordered() chain.Config {
	c := baseCfg()
	c.Vals = []chain.GenVal{{Key: 0, Stake: 2 * min}, {Key: 1, Stake: 3*min - 1}, {Key: 2, Stake: 4 * min}, {Key: 3, Stake: 5 * min}}
	c.Accs = append(c.Accs, chain.GenAcc{Key: 5, Balance: 9 * min})
	p := *c.Pos
	p.MaxValidators = 3
	c.Pos = &p
	return c
}

// cfg4big: cfg4ordered with stakes in units of 64·min, so that consensus powers straddle 255/256
// (more than one byte of the power-index key differs) while the MaxValidators cut-off binds.
func cfg4big() chain.Config {
	u := 64 * min
	c := baseCfg()
	c.Vals = []chain.GenVal{{Key: 0, Stake: 2 * u}, {Key: 1, Stake: 3*u - 1}, {Key: 2, Stake: 4 * u}, {Key: 3, Stake: 5 * u}}
	c.Accs = []chain.GenAcc{{Key: 0, Balance: 5 * min}, {Key: 1, Balance: 5 * min}, {Key: 2, Balance: 5 * min}, {Key: 3, Balance: 9 * u}, {Key: 4, Balance: 5 * min}, {Key: 5, Balance: 9 * u}}
	p := *c.Pos
	p.MaxValidators = 3
	c.Pos = &p
	return c
}

// cfgMinStake3: StakeMinimum = 3·min (more than one unit of consensus power), so a validator
// slashed below the minimum is force-unstaked while its remaining stake still has power >= 1.
func cfgMinStake3() chain.Config {
	c := baseCfg()
	c.Vals = []chain.GenVal{{Key: 0, Stake: 4 * min}, {Key: 1, Stake: 5 * min}, {Key: 2, Stake: 6 * min}}
	c.Accs = append(c.Accs, chain.GenAcc{Key: 5, Balance: 9 * min})
	p := *c.Pos
	p.MaxValidators, p.StakeMinimum = 2, 3*min
	c.Pos = &p
	return c
}

// cfgJailFast: a window of 1 with MinSignedPerWindow = 1, so a single miss jails; three validators
// so that several can leave the set in one block and a jailed one can be slashed again.
func cfgJailFast() chain.Config {
	c := baseCfg()
	c.Vals = []chain.GenVal{{Key: 0, Stake: 3*min + 333333}, {Key: 1, Stake: 3 * min}, {Key: 2, Stake: 4 * min}}
	p := *c.Pos
	p.Window, p.MinSignedNum, p.MinSignedDen = 1, 1, 1
	c.Pos = &p
	return c
}

// jailFastAlphabet: jailing of one or two validators in one block, slashes of jailed validators.
func jailFastAlphabet() []Choice {
	return append(jailAlphabet(),
		Choice{Label: "miss(k1)", Block: chain.Block{Missed: []int{1}}},
		Choice{Label: "miss(k0,k1)", Block: chain.Block{Missed: []int{0, 1}}},
		Choice{Label: "miss(k0)+evidence(k1)", Block: chain.Block{Missed: []int{0}, Evidence: []chain.Evidence{{Val: 1, HeightAgo: 1, Age: time.Second}}}},
		Choice{Label: "evidence(k0)+evidence(k1)", Block: chain.Block{Evidence: []chain.Evidence{{Val: 0, HeightAgo: 1, Age: time.Second}, {Val: 1, HeightAgo: 1, Age: time.Second}}}},
		Choice{Label: "miss(k0)+unstake(k1)", Block: chain.Block{Missed: []int{0}, Events: []chain.Event{txE(chain.TxSpec{Msg: "unstake", From: 1})}}},
		evB("burn(k0,0.3)", chain.Event{Kind: "burn", Who: 0, Sev: "0.3"}),
		txB("unjail(k1)", chain.TxSpec{Msg: "unjail", From: 1}),
		Choice{Label: "dt=2s [unjail(k0),unjail(k1)]", Block: chain.Block{DT: 2 * time.Second, Events: []chain.Event{txE(chain.TxSpec{Msg: "unjail", From: 0}), txE(chain.TxSpec{Msg: "unjail", From: 1})}}},
	)
}

func cfgMax1() chain.Config {
	c := baseCfg()
	p := *c.Pos
	p.MaxValidators = 1
	c.Pos = &p
	return c
}

func txB(label string, t chain.TxSpec) Choice {
	return Choice{Label: label, Block: chain.Block{Events: []chain.Event{{Kind: "tx", Tx: &t}}}}
}

func evB(label string, e chain.Event) Choice {
	return Choice{Label: label, Block: chain.Block{Events: []chain.Event{e}}}
}

func multiB(label string, evs ...chain.Event) Choice {
	return Choice{Label: label, Block: chain.Block{Events: evs}}
}

func txE(t chain.TxSpec) chain.Event { return chain.Event{Kind: "tx", Tx: &t} }

// stakingAlphabet is the core alphabet of the staking-state explorers (one event per block).
func stakingAlphabet() []Choice {
	return []Choice{
		txB("stake(k2,min)", chain.TxSpec{Msg: "stake", From: 2, Amount: min}),
		txB("stake(k2,2min+999999)", chain.TxSpec{Msg: "stake", From: 2, Amount: 2*min + 999999}),
		txB("stake(k2,min-1)", chain.TxSpec{Msg: "stake", From: 2, Amount: min - 1}),
		txB("stake(k2,10min)", chain.TxSpec{Msg: "stake", From: 2, Amount: 10 * min}),
		txB("stake(k0,min)", chain.TxSpec{Msg: "stake", From: 0, Amount: min}),
		txB("stake(k0,2min) its genesis stake again", chain.TxSpec{Msg: "stake", From: 0, Amount: 2 * min}),
		evB("burn(k0,0.9)", chain.Event{Kind: "burn", Who: 0, Sev: "0.9"}),
		txB("unstake(k2)", chain.TxSpec{Msg: "unstake", From: 2}),
		txB("unstake(k0)", chain.TxSpec{Msg: "unstake", From: 0}),
		txB("unjail(k0)", chain.TxSpec{Msg: "unjail", From: 0}),
		txB("unjail(k2)", chain.TxSpec{Msg: "unjail", From: 2}),
		txB("send(k3->k2,1)", chain.TxSpec{Msg: "send", From: 3, To: 2, Amount: 1}),
		txB("send_pool(k3,1000)", chain.TxSpec{Msg: "send_pool", From: 3, Amount: 1000}),
		{Label: "dt=3s", Block: chain.Block{DT: 3 * time.Second}},
		{Label: "miss(k0)", Block: chain.Block{Missed: []int{0}}},
		{Label: "evidence(k0)", Block: chain.Block{Evidence: []chain.Evidence{{Val: 0, HeightAgo: 1, Age: time.Second}}}},
		{Label: "evidence(k2)", Block: chain.Block{Evidence: []chain.Evidence{{Val: 2, HeightAgo: 1, Age: time.Second}}}},
		evB("burn(k0,0.5)", chain.Event{Kind: "burn", Who: 0, Sev: "0.5"}),
		evB("burn(k0,0.000001)", chain.Event{Kind: "burn", Who: 0, Sev: "0.000001"}),
		evB("burn(k2,0.5)", chain.Event{Kind: "burn", Who: 2, Sev: "0.5"}),
		evB("award(k3,100)", chain.Event{Kind: "award", Who: 3, Amount: 100}),
		evB("award(k2,7)", chain.Event{Kind: "award", Who: 2, Amount: 7}),
		evB("award(k0 validator,9)", chain.Event{Kind: "award", Who: 0, Amount: 9}),
		txB("change(StakeMinimum=3min)", chain.TxSpec{Msg: "change_param", From: 4, Key: "pos/StakeMinimum", Val: mj(int64(3 * min))}),
		{Label: "prop=k1", Block: chain.Block{Proposer: 2}},
	}
}

// extraAlphabet: unusual inputs and multi-event blocks (the things that need something specific).
func extraAlphabet() []Choice {
	return []Choice{
		txB("send(k3->k3,5) self", chain.TxSpec{Msg: "send", From: 3, To: 3, Amount: 5}),
		txB("send(k3->k9,all-fee)", chain.TxSpec{Msg: "send", From: 3, To: 9, Amount: 5*min - 10000}),
		txB("send(k3->k2,balance+1)", chain.TxSpec{Msg: "send", From: 3, To: 2, Amount: 5*min + 1}),
		txB("send(k3->pos module account,1000)", chain.TxSpec{Msg: "send_module", From: 3, Key: "pos", Amount: 1000}),
		txB("send(k3->fee collector,1000)", chain.TxSpec{Msg: "send_module", From: 3, Key: "fee_collector", Amount: 1000}),
		txB("send(k3->dao,1000)", chain.TxSpec{Msg: "send_module", From: 3, Key: "dao", Amount: 1000}),
		txB("stake(k3,min)", chain.TxSpec{Msg: "stake", From: 3, Amount: min}),
		txB("unstake(k1)", chain.TxSpec{Msg: "unstake", From: 1}),
		txB("dao_transfer(k4->dao?,3)", chain.TxSpec{Msg: "dao_transfer", From: 4, To: 3, Amount: 3}),
		txB("dao_burn(k4,3)", chain.TxSpec{Msg: "dao_burn", From: 4, Amount: 3}),
		txB("dao_burn(k4,more than the DAO holds)", chain.TxSpec{Msg: "dao_burn", From: 4, Amount: 2000000}),
		txB("dao_transfer(k4->k3,more than the DAO holds)", chain.TxSpec{Msg: "dao_transfer", From: 4, To: 3, Amount: 2000000}),
		evB("burn(k0,1.5)", chain.Event{Kind: "burn", Who: 0, Sev: "1.5"}),
		multiB("[burn(k0,0.6),burn(k0,0.6)]", chain.Event{Kind: "burn", Who: 0, Sev: "0.6"}, chain.Event{Kind: "burn", Who: 0, Sev: "0.6"}),
		multiB("[award(k3,10),award(k3,25)]", chain.Event{Kind: "award", Who: 3, Amount: 10}, chain.Event{Kind: "award", Who: 3, Amount: 25}),
		multiB("[award(k9,4),award(k3,6)]", chain.Event{Kind: "award", Who: 9, Amount: 4}, chain.Event{Kind: "award", Who: 3, Amount: 6}),
		multiB("[unstake(k0),unstake(k1)]", txE(chain.TxSpec{Msg: "unstake", From: 0}), txE(chain.TxSpec{Msg: "unstake", From: 1})),
		multiB("[send,send] 2 fees", txE(chain.TxSpec{Msg: "send", From: 3, To: 2, Amount: 1}), txE(chain.TxSpec{Msg: "send", From: 4, To: 2, Amount: 1})),
		// the first transaction of an account that came into existence by receiving a transfer (no public key on record)
		multiB("[send(k3->k9,50000),send(k9->k2,1)]", txE(chain.TxSpec{Msg: "send", From: 3, To: 9, Amount: 50000}), txE(chain.TxSpec{Msg: "send", From: 9, To: 2, Amount: 1})),
		{Label: "miss(k0,k1)", Block: chain.Block{Missed: []int{0, 1}}},
		{Label: "evidence(k0,power=10)", Block: chain.Block{Evidence: []chain.Evidence{{Val: 0, HeightAgo: 1, Age: time.Second, Power: 10}}}},
		{Label: "evidence(k0,old)", Block: chain.Block{Evidence: []chain.Evidence{{Val: 0, HeightAgo: 1, Age: 121 * time.Second}}}},
		{Label: "evidence(k0)+evidence(k1)", Block: chain.Block{Evidence: []chain.Evidence{{Val: 0, HeightAgo: 1, Age: time.Second}, {Val: 1, HeightAgo: 1, Age: time.Second}}}},
		{Label: "prop=unknown", Block: chain.Block{Proposer: -1}},
		// award recipients whose address is not 20 bytes long
		evB("award(empty address,5)", chain.Event{Kind: "award", Who: chain.EmptyIndex, Amount: 5}),
		evB("award(19-byte address,7)", chain.Event{Kind: "award", Who: 2000 + 3, Amount: 7}),
		multiB("[award(23-byte,7),award(24-byte same first 20,11)]", chain.Event{Kind: "award", Who: 6000 + 3, Amount: 7}, chain.Event{Kind: "award", Who: 7000 + 3, Amount: 11}),
		// slashes whose token amount truncates to zero
		evB("burn(k0,0)", chain.Event{Kind: "burn", Who: 0, Sev: "0"}),
		evB("burn(k0,0.000000000000000001)", chain.Event{Kind: "burn", Who: 0, Sev: "0.000000000000000001"}),
		{Label: "dt=3s-1ns", Block: chain.Block{DT: 3*time.Second - time.Nanosecond}},
		{Label: "dt=2s", Block: chain.Block{DT: 2 * time.Second}},
	}
}

func richAlphabet() []Choice { return append(stakingAlphabet(), extraAlphabet()...) }

// setAlphabet: events that change who is in the validator set (C05), for 3-4 validators.
func setAlphabet() []Choice { return setAlphabetU(min) }

// setAlphabetU: the same events with stakes in multiples of u.
func setAlphabetU(u int64) []Choice {
	return []Choice{
		txB(fmt.Sprintf("stake(k3,%d)", 2*u), chain.TxSpec{Msg: "stake", From: 3, Amount: 2 * u}),
		txB(fmt.Sprintf("stake(k3,%d)", 3*u), chain.TxSpec{Msg: "stake", From: 3, Amount: 3 * u}),
		txB(fmt.Sprintf("stake(k5,%d)", 4*u), chain.TxSpec{Msg: "stake", From: 5, Amount: 4 * u}),
		txB("unstake(k0)", chain.TxSpec{Msg: "unstake", From: 0}),
		txB("unstake(k1)", chain.TxSpec{Msg: "unstake", From: 1}),
		txB("unstake(k2)", chain.TxSpec{Msg: "unstake", From: 2}),
		txB("unjail(k0)", chain.TxSpec{Msg: "unjail", From: 0}),
		txB("unjail(k1)", chain.TxSpec{Msg: "unjail", From: 1}),
		multiB("[unstake(k0),unstake(k1)]", txE(chain.TxSpec{Msg: "unstake", From: 0}), txE(chain.TxSpec{Msg: "unstake", From: 1})),
		multiB("[unstake(k1),stake(k3,3u)]", txE(chain.TxSpec{Msg: "unstake", From: 1}), txE(chain.TxSpec{Msg: "stake", From: 3, Amount: 3 * u})),
		{Label: "miss(k0)", Block: chain.Block{Missed: []int{0}}},
		{Label: "miss(k1)", Block: chain.Block{Missed: []int{1}}},
		{Label: "miss(k0,k1)", Block: chain.Block{Missed: []int{0, 1}}},
		{Label: "evidence(k0)", Block: chain.Block{Evidence: []chain.Evidence{{Val: 0, HeightAgo: 1, Age: time.Second}}}},
		{Label: "evidence(k2)", Block: chain.Block{Evidence: []chain.Evidence{{Val: 2, HeightAgo: 1, Age: time.Second}}}},
		evB("burn(k0,0.5)", chain.Event{Kind: "burn", Who: 0, Sev: "0.5"}),
		evB("burn(k1,0.4)", chain.Event{Kind: "burn", Who: 1, Sev: "0.4"}),
		evB("burn(k2,0.3)", chain.Event{Kind: "burn", Who: 2, Sev: "0.3"}),
		multiB("[burn(k0,0.5),burn(k1,0.5)]", chain.Event{Kind: "burn", Who: 0, Sev: "0.5"}, chain.Event{Kind: "burn", Who: 1, Sev: "0.5"}),
		evB("burn(k1,0) nothing to remove", chain.Event{Kind: "burn", Who: 1, Sev: "0"}),
		evB("burn(k2,0.000000000000000001) dust", chain.Event{Kind: "burn", Who: 2, Sev: "0.000000000000000001"}),
		{Label: "dt=3s", Block: chain.Block{DT: 3 * time.Second}},
		txB("change(MaxValidators=1)", chain.TxSpec{Msg: "change_param", From: 4, Key: "pos/MaxValidators", Val: `"1"`}),
		txB("change(MaxValidators=3)", chain.TxSpec{Msg: "change_param", From: 4, Key: "pos/MaxValidators", Val: `"3"`}),
		// limits that need more than 16 bits (the parameter is a uint64)
		txB("change(MaxValidators=65536)", chain.TxSpec{Msg: "change_param", From: 4, Key: "pos/MaxValidators", Val: `"65536"`}),
		txB("change(MaxValidators=65537)", chain.TxSpec{Msg: "change_param", From: 4, Key: "pos/MaxValidators", Val: `"65537"`}),
	}
}

// rewardAlphabet (C10): fee-paying blocks, proposers, awards.
func rewardAlphabet() []Choice {
	return []Choice{
		txB("send (1 fee)", chain.TxSpec{Msg: "send", From: 3, To: 2, Amount: 1}),
		multiB("[send,send] (2 fees)", txE(chain.TxSpec{Msg: "send", From: 3, To: 2, Amount: 1}), txE(chain.TxSpec{Msg: "send", From: 4, To: 2, Amount: 1})),
		txB("send overdraft (fee, handler fails)", chain.TxSpec{Msg: "send", From: 3, To: 2, Amount: 100 * min}),
		txB("send fee+5 (overpaid)", chain.TxSpec{Msg: "send", From: 3, To: 2, Amount: 1, Fee: 10005}),
		Choice{Label: "prop=k1 + send", Block: chain.Block{Proposer: 2, Events: []chain.Event{txE(chain.TxSpec{Msg: "send", From: 3, To: 2, Amount: 1})}}},
		Choice{Label: "prop=unknown + send", Block: chain.Block{Proposer: -1, Events: []chain.Event{txE(chain.TxSpec{Msg: "send", From: 3, To: 2, Amount: 1})}}},
		Choice{Label: "prop=k2(not a validator) + send", Block: chain.Block{Proposer: 3, Events: []chain.Event{txE(chain.TxSpec{Msg: "send", From: 3, To: 2, Amount: 1})}}},
		{Label: "prop=k1", Block: chain.Block{Proposer: 2}},
		{Label: "prop=unknown", Block: chain.Block{Proposer: -1}},
		txB("unstake(k0) (proposer leaves)", chain.TxSpec{Msg: "unstake", From: 0}),
		{Label: "dt=3s", Block: chain.Block{DT: 3 * time.Second}},
		{Label: "evidence(k0)", Block: chain.Block{Evidence: []chain.Evidence{{Val: 0, HeightAgo: 1, Age: time.Second}}}},
		evB("award(k3,100)", chain.Event{Kind: "award", Who: 3, Amount: 100}),
		multiB("[award(k3,10),award(k3,25)]", chain.Event{Kind: "award", Who: 3, Amount: 10}, chain.Event{Kind: "award", Who: 3, Amount: 25}),
		multiB("[award(k3,10),award(k2,25)]", chain.Event{Kind: "award", Who: 3, Amount: 10}, chain.Event{Kind: "award", Who: 2, Amount: 25}),
		evB("award(k9 fresh,4)", chain.Event{Kind: "award", Who: 9, Amount: 4}),
		evB("award(k0 validator,8)", chain.Event{Kind: "award", Who: 0, Amount: 8}),
		multiB("[award(k3,5),send]", chain.Event{Kind: "award", Who: 3, Amount: 5}, txE(chain.TxSpec{Msg: "send", From: 3, To: 2, Amount: 1})),
		// proposers whose record exists but is no longer staked (forced unstake while still in the set)
		Choice{Label: "prop=k0 + send", Block: chain.Block{Proposer: 1, Events: []chain.Event{txE(chain.TxSpec{Msg: "send", From: 3, To: 2, Amount: 1})}}},
		Choice{Label: "evidence(k0) + prop=k0 + send", Block: chain.Block{Proposer: 1, Evidence: []chain.Evidence{{Val: 0, HeightAgo: 1, Age: time.Second}}, Events: []chain.Event{txE(chain.TxSpec{Msg: "send", From: 3, To: 2, Amount: 1})}}},
		evB("burn(k0,1)", chain.Event{Kind: "burn", Who: 0, Sev: "1"}),
		Choice{Label: "miss(k0) + prop=k0 + send", Block: chain.Block{Proposer: 1, Missed: []int{0}, Events: []chain.Event{txE(chain.TxSpec{Msg: "send", From: 3, To: 2, Amount: 1})}}},
		// zero awards among positive ones, in every position of the address order
		multiB("[award(k2,0),award(k3,25),award(k9,7)]", chain.Event{Kind: "award", Who: 2, Amount: 0}, chain.Event{Kind: "award", Who: 3, Amount: 25}, chain.Event{Kind: "award", Who: 9, Amount: 7}),
		multiB("[award(k2,5),award(k3,0),award(k9,7)]", chain.Event{Kind: "award", Who: 2, Amount: 5}, chain.Event{Kind: "award", Who: 3, Amount: 0}, chain.Event{Kind: "award", Who: 9, Amount: 7}),
		multiB("[award(k2,5),award(k3,25),award(k9,0)]", chain.Event{Kind: "award", Who: 2, Amount: 5}, chain.Event{Kind: "award", Who: 3, Amount: 25}, chain.Event{Kind: "award", Who: 9, Amount: 0}),
		evB("award(k3,0)", chain.Event{Kind: "award", Who: 3, Amount: 0}),
		txB("send(k3->pos module account,1000)", chain.TxSpec{Msg: "send_module", From: 3, Key: "pos", Amount: 1000}),
		txB("send(k3->fee collector,1000)", chain.TxSpec{Msg: "send_module", From: 3, Key: "fee_collector", Amount: 1000}),
		// an award to the zero-length address
		evB("award(empty address,5)", chain.Event{Kind: "award", Who: chain.EmptyIndex, Amount: 5}),
		// a fee paid in two denominations (the signer holds some "abc" in the reward configurations)
		txB("send fee + 5abc", chain.TxSpec{Msg: "send", From: 3, To: 2, Amount: 1, FeeAbc: 5}),
		Choice{Label: "prop=unknown + send fee + 5abc", Block: chain.Block{Proposer: -1, Events: []chain.Event{txE(chain.TxSpec{Msg: "send", From: 3, To: 2, Amount: 1, FeeAbc: 5})}}},
		evB("award(staked pool,6)", chain.Event{Kind: "award", Who: chain.PoolIndex, Amount: 6}),
		// awards whose recipient is one of the accounts the fee distribution itself moves coins through
		evB("award(fee collector,6)", chain.Event{Kind: "award", Who: chain.FeeIndex, Amount: 6}),
		Choice{Label: "award(fee collector,6) + send", Block: chain.Block{Events: []chain.Event{{Kind: "award", Who: chain.FeeIndex, Amount: 6}, txE(chain.TxSpec{Msg: "send", From: 3, To: 2, Amount: 1})}}},
		evB("award(pos module account,6)", chain.Event{Kind: "award", Who: chain.PosIndex, Amount: 6}),
		// two awards to one address whose sum passes 2^63
		multiB("[award(k3,2^63-1),award(k3,1)]", chain.Event{Kind: "award", Who: 3, Amount: 1<<63 - 1}, chain.Event{Kind: "award", Who: 3, Amount: 1}),
		// awards queued in the block whose EndBlock completes the recipient's unstaking
		Choice{Label: "dt=3s + award(k0,8)", Block: chain.Block{DT: 3 * time.Second, Events: []chain.Event{{Kind: "award", Who: 0, Amount: 8}}}},
		Choice{Label: "dt=3s + [award(k0,8),award(k3,5)]", Block: chain.Block{DT: 3 * time.Second, Events: []chain.Event{{Kind: "award", Who: 0, Amount: 8}, {Kind: "award", Who: 3, Amount: 5}}}},
		// a header without proposer address: nobody is the proposer of that block
		Choice{Label: "prop=empty + send", Block: chain.Block{Proposer: -2, Events: []chain.Event{txE(chain.TxSpec{Msg: "send", From: 3, To: 2, Amount: 1})}}},
		{Label: "prop=empty", Block: chain.Block{Proposer: -2}},
		// recipients whose address is not 20 bytes long (19 and 23 bytes; two 23/24-byte addresses that
		// share their first 20 bytes)
		evB("award(19-byte address,7)", chain.Event{Kind: "award", Who: 2000 + 3, Amount: 7}),
		evB("award(address starting with 0x51,13)", chain.Event{Kind: "award", Who: 8000 + 3, Amount: 13}),
		multiB("[award(address starting with 0x51 0x51,3),award(k3,4)]", chain.Event{Kind: "award", Who: 9000 + 3, Amount: 3}, chain.Event{Kind: "award", Who: 3, Amount: 4}),
		multiB("[award(23-byte,7),award(24-byte same first 20,11)]", chain.Event{Kind: "award", Who: 6000 + 3, Amount: 7}, chain.Event{Kind: "award", Who: 7000 + 3, Amount: 11}),
		multiB("[award(k3,5),award(23-byte extension of k3,9)]", chain.Event{Kind: "award", Who: 3, Amount: 5}, chain.Event{Kind: "award", Who: 6000 + 3, Amount: 9}),
	}
}

// slashAlphabet (C07): every slashing route on every target class, several in one block.
func slashAlphabet() []Choice {
	var cs []Choice
	for _, sev := range []string{"0", "0.000000000000000001", "0.000001", "0.05", "0.333333333333333333", "0.5", "0.999999999999999999", "1", "1.5"} {
		cs = append(cs, evB("burn(k0,"+sev+")", chain.Event{Kind: "burn", Who: 0, Sev: sev}))
	}
	cs = append(cs,
		evB("burn(k2 not a validator,0.5)", chain.Event{Kind: "burn", Who: 2, Sev: "0.5"}),
		multiB("[burn(k0,0.6),burn(k0,0.6)]", chain.Event{Kind: "burn", Who: 0, Sev: "0.6"}, chain.Event{Kind: "burn", Who: 0, Sev: "0.6"}),
		multiB("[burn(k0,0.3),burn(k1,0.3)]", chain.Event{Kind: "burn", Who: 0, Sev: "0.3"}, chain.Event{Kind: "burn", Who: 1, Sev: "0.3"}),
	)
	for _, pw := range []int64{0, 1, 3, 1000000000, 10000000000000} {
		for _, age := range []time.Duration{time.Second, 120 * time.Second, 120*time.Second + time.Nanosecond, 1200 * time.Second} {
			cs = append(cs, Choice{Label: fmt.Sprintf("evidence(k0,power=%d,age=%s)", pw, age), Block: chain.Block{Evidence: []chain.Evidence{{Val: 0, HeightAgo: 1, Age: age, Power: pw}}}})
		}
	}
	cs = append(cs,
		Choice{Label: "evidence(k0,future height)", Block: chain.Block{Evidence: []chain.Evidence{{Val: 0, HeightAgo: -5, Age: time.Second}}}},
		Choice{Label: "evidence(k0,height 0)", Block: chain.Block{Evidence: []chain.Evidence{{Val: 0, HeightAgo: 100, Age: time.Second}}}},
		Choice{Label: "evidence(k0)+evidence(k0) twice", Block: chain.Block{Evidence: []chain.Evidence{{Val: 0, HeightAgo: 1, Age: time.Second}, {Val: 0, HeightAgo: 2, Age: 2 * time.Second}}}},
		Choice{Label: "evidence(k0)+miss(k0)", Block: chain.Block{Missed: []int{0}, Evidence: []chain.Evidence{{Val: 0, HeightAgo: 1, Age: time.Second}}}},
		Choice{Label: "miss(k0)", Block: chain.Block{Missed: []int{0}}},
		Choice{Label: "miss(k0)+burn", Block: chain.Block{Missed: []int{0}, Events: []chain.Event{{Kind: "burn", Who: 0, Sev: "0.4"}}}},
		// a vote that reports another power than the validator's current one (the downtime slash is
		// computed from the reported power): far larger (10^13, times 10^6 beyond 2^63) and smaller
		Choice{Label: "miss(k0) reported power 10^13", Block: chain.Block{Missed: []int{0}, VotePower: []chain.VotePow{{Val: 0, Power: 10000000000000}}}},
		Choice{Label: "miss(k0) reported power 1", Block: chain.Block{Missed: []int{0}, VotePower: []chain.VotePow{{Val: 0, Power: 1}}}},
		txB("unstake(k0)", chain.TxSpec{Msg: "unstake", From: 0}),
		txB("stake(k2,min)", chain.TxSpec{Msg: "stake", From: 2, Amount: min}),
		evB("burn(k2,0.5)", chain.Event{Kind: "burn", Who: 2, Sev: "0.5"}),
		Choice{Label: "evidence(k2)", Block: chain.Block{Evidence: []chain.Evidence{{Val: 2, HeightAgo: 1, Age: time.Second}}}},
		Choice{Label: "dt=3s", Block: chain.Block{DT: 3 * time.Second}},
		// governance changes the slashing parameters between two slashes
		txB("change(SlashFractionDowntime=0.5)", chain.TxSpec{Msg: "change_param", From: 4, Key: "pos/SlashFractionDowntime", Val: mj(sdk.NewDecWithPrec(5, 1))}),
		txB("change(SlashFractionDoubleSign=0)", chain.TxSpec{Msg: "change_param", From: 4, Key: "pos/SlashFractionDoubleSign", Val: mj(sdk.ZeroDec())}),
		txB("change(MaxEvidenceAge=1s)", chain.TxSpec{Msg: "change_param", From: 4, Key: "pos/MaxEvidenceAge", Val: mj(time.Second)}),
		txB("change(StakeMinimum=3min)", chain.TxSpec{Msg: "change_param", From: 4, Key: "pos/StakeMinimum", Val: mj(int64(3 * min))}),
	)
	return cs
}

// c07cfgs: stakes around the minimum and large, with slash fractions that truncate.
func c07cfgs() []chain.Config {
	var out []chain.Config
	for _, st := range []int64{min, min + 1, 2*min - 1, 3*min + 333333, 1000000 * min} {
		c := baseCfg()
		c.Vals = []chain.GenVal{{Key: 0, Stake: st}, {Key: 1, Stake: 3 * min}}
		p := *c.Pos
		p.SlashDoubleStr, p.SlashDowntimeStr = "0.333333333333333333", "0.010000000000000001"
		c.Pos = &p
		out = append(out, c)
	}
	// extreme slash fractions at a stake that truncates
	for _, fr := range [][2]string{{"0", "0"}, {"1", "1"}, {"0.000000000000000001", "0.999999999999999999"}, {"0.5", "0.000001"}} {
		c := baseCfg()
		c.Vals = []chain.GenVal{{Key: 0, Stake: 3*min + 333333}, {Key: 1, Stake: 3 * min}}
		p := *c.Pos
		p.SlashDoubleStr, p.SlashDowntimeStr = fr[0], fr[1]
		c.Pos = &p
		out = append(out, c)
	}
	return out
}

// jailAlphabet (C09): jailing causes, unjail attempts at all times, followed by further events.
func jailAlphabet() []Choice {
	return []Choice{
		{Label: "miss(k0)", Block: chain.Block{Missed: []int{0}}},
		{Label: "miss(k0)+dt=2s", Block: chain.Block{Missed: []int{0}, DT: 2 * time.Second}},
		{Label: "evidence(k0)", Block: chain.Block{Evidence: []chain.Evidence{{Val: 0, HeightAgo: 1, Age: time.Second}}}},
		{Label: "evidence(k0)+miss(k0)", Block: chain.Block{Missed: []int{0}, Evidence: []chain.Evidence{{Val: 0, HeightAgo: 1, Age: time.Second}}}},
		// evidence exactly as old as allowed convicts, one nanosecond older does not
		{Label: "evidence(k0,age=max)", Block: chain.Block{Evidence: []chain.Evidence{{Val: 0, HeightAgo: 1, Age: 120 * time.Second}}}},
		{Label: "evidence(k0,age=max+1ns)", Block: chain.Block{Evidence: []chain.Evidence{{Val: 0, HeightAgo: 1, Age: 120*time.Second + time.Nanosecond}}}},
		txB("unjail(k0)", chain.TxSpec{Msg: "unjail", From: 0}),
		Choice{Label: "dt=2s-1ns unjail(k0)", Block: chain.Block{DT: 2*time.Second - time.Nanosecond, Events: []chain.Event{txE(chain.TxSpec{Msg: "unjail", From: 0})}}},
		Choice{Label: "dt=2s unjail(k0)", Block: chain.Block{DT: 2 * time.Second, Events: []chain.Event{txE(chain.TxSpec{Msg: "unjail", From: 0})}}},
		Choice{Label: "dt=3s unjail(k0)", Block: chain.Block{DT: 3 * time.Second, Events: []chain.Event{txE(chain.TxSpec{Msg: "unjail", From: 0})}}},
		txB("unjail(k1) never jailed", chain.TxSpec{Msg: "unjail", From: 1}),
		txB("unjail(k3) unknown", chain.TxSpec{Msg: "unjail", From: 3}),
		txB("unstake(k0)", chain.TxSpec{Msg: "unstake", From: 0}),
		txB("stake(k0,min) restake", chain.TxSpec{Msg: "stake", From: 0, Amount: min}),
		evB("burn(k0,0.6)", chain.Event{Kind: "burn", Who: 0, Sev: "0.6"}),
		{Label: "dt=3s", Block: chain.Block{DT: 3 * time.Second}},
		{Label: "dt=2s", Block: chain.Block{DT: 2 * time.Second}},
		txB("change(MaxValidators=1)", chain.TxSpec{Msg: "change_param", From: 4, Key: "pos/MaxValidators", Val: `"1"`}),
		// block times with a fractional part (jailed-until is compared exactly, not by the second)
		{Label: "dt=1.5s", Block: chain.Block{DT: 1500 * time.Millisecond}},
		{Label: "miss(k0)+dt=1.5s", Block: chain.Block{Missed: []int{0}, DT: 1500 * time.Millisecond}},
		Choice{Label: "dt=1.5s unjail(k0)", Block: chain.Block{DT: 1500 * time.Millisecond, Events: []chain.Event{txE(chain.TxSpec{Msg: "unjail", From: 0})}}},
		// parameters changed by governance while a validator sits in jail: jailed-until is a stored
		// time (a new jail duration does not move it); the minimum stake is the current one
		txB("change(DowntimeJailDuration=10s)", chain.TxSpec{Msg: "change_param", From: 4, Key: "pos/DowntimeJailDuration", Val: mj(10 * time.Second)}),
		txB("change(StakeMinimum=50min)", chain.TxSpec{Msg: "change_param", From: 4, Key: "pos/StakeMinimum", Val: mj(int64(50 * min))}),
	}
}

func c09cfgs() []chain.Config {
	var out []chain.Config
	for _, st := range []int64{min, 2 * min, 100 * min} {
		c := baseCfg()
		c.Vals = []chain.GenVal{{Key: 0, Stake: st}, {Key: 1, Stake: 3 * min}}
		out = append(out, c)
	}
	return out
}

// lifecycleAlphabet (C06): one subject (k2 candidate, k0 staked) and precise time steps.
func lifecycleAlphabet() []Choice {
	return []Choice{
		txB("stake(k2,min-1)", chain.TxSpec{Msg: "stake", From: 2, Amount: min - 1}),
		txB("stake(k2,min)", chain.TxSpec{Msg: "stake", From: 2, Amount: min}),
		txB("stake(k2,2min)", chain.TxSpec{Msg: "stake", From: 2, Amount: 2 * min}),
		txB("stake(k2,balance+1)", chain.TxSpec{Msg: "stake", From: 2, Amount: 5*min + 1}),
		txB("stake(k2,balance-fee) everything", chain.TxSpec{Msg: "stake", From: 2, Amount: 5*min - chain.PosFees["stake_validator"]}),
		txB("stake(k2,balance-fee+1)", chain.TxSpec{Msg: "stake", From: 2, Amount: 5*min - chain.PosFees["stake_validator"] + 1}),
		txB("unstake(k2)", chain.TxSpec{Msg: "unstake", From: 2}),
		txB("unstake(k0)", chain.TxSpec{Msg: "unstake", From: 0}),
		txB("unjail(k0)", chain.TxSpec{Msg: "unjail", From: 0}),
		txB("stake(k0,min) while staked/unstaking", chain.TxSpec{Msg: "stake", From: 0, Amount: min}),
		evB("burn(k0,0.000001)", chain.Event{Kind: "burn", Who: 0, Sev: "0.000001"}),
		evB("burn(k0,1)", chain.Event{Kind: "burn", Who: 0, Sev: "1"}),
		evB("burn(k2,0.9)", chain.Event{Kind: "burn", Who: 2, Sev: "0.9"}),
		{Label: "miss(k0)", Block: chain.Block{Missed: []int{0}}},
		{Label: "evidence(k0)", Block: chain.Block{Evidence: []chain.Evidence{{Val: 0, HeightAgo: 1, Age: time.Second}}}},
		{Label: "evidence(k2)", Block: chain.Block{Evidence: []chain.Evidence{{Val: 2, HeightAgo: 1, Age: time.Second}}}},
		{Label: "dt=1.5s", Block: chain.Block{DT: 1500 * time.Millisecond}},
		{Label: "dt=2s-1ns", Block: chain.Block{DT: 2*time.Second - time.Nanosecond}},
		{Label: "dt=2s", Block: chain.Block{DT: 2 * time.Second}},
		{Label: "dt=3s", Block: chain.Block{DT: 3 * time.Second}},
		multiB("[unstake(k0),unstake(k1)] same time", txE(chain.TxSpec{Msg: "unstake", From: 0}), txE(chain.TxSpec{Msg: "unstake", From: 1})),
		txB("unstake(k1)", chain.TxSpec{Msg: "unstake", From: 1}),
		// governance moves the minimum stake while validators are staked / unstaking
		txB("change(StakeMinimum=50min)", chain.TxSpec{Msg: "change_param", From: 4, Key: "pos/StakeMinimum", Val: mj(int64(50 * min))}),
	}
}

// windowCfg: W and MinSignedPerWindow for the C08 explorers; k0 staked from genesis or joining later.
func windowCfg(w int64, num, den int64, stakeK0 int64) chain.Config {
	c := baseCfg()
	c.Vals = []chain.GenVal{{Key: 0, Stake: stakeK0}, {Key: 1, Stake: 3 * min}}
	p := *c.Pos
	p.Window, p.MinSignedNum, p.MinSignedDen = w, num, den
	c.Pos = &p
	return c
}

// statePreludes: block sequences that take the base configuration (k0, k1 staked; window 2) to a
// non-initial state from which the alphabets are explored again (a state reached by 2-3 deviations
// plus K further deviations = histories the plain bound does not reach).
func statePreludes() map[string][]chain.Block {
	ev0 := chain.Block{Evidence: []chain.Evidence{{Val: 0, HeightAgo: 1, Age: time.Second}}}
	return map[string][]chain.Block{
		"k0-jailed":           {{}, {Missed: []int{0}}, {Missed: []int{0}}},
		"k0-unstaking":        {{Events: []chain.Event{txE(chain.TxSpec{Msg: "unstake", From: 0})}}},
		"k0-tombstoned":       {{}, ev0},
		"k0-unstaking-jailed": {{Events: []chain.Event{txE(chain.TxSpec{Msg: "unstake", From: 0})}}, {Missed: []int{0}}, {Missed: []int{0}}},
		// k0 missed blocks, unstaked completely and was removed (its signing info stays behind)
		"k0-removed-with-misses": {{Missed: []int{0}}, {Events: []chain.Event{txE(chain.TxSpec{Msg: "unstake", From: 0})}}, {Missed: []int{0}, DT: 2 * time.Second}, {DT: 2 * time.Second}},
		// k0's power has changed once while it was in the set (2 -> 1)
		"k0-slashed-half":     {{Events: []chain.Event{{Kind: "burn", Who: 0, Sev: "0.5"}}}, {}},
		// k0 was convicted of double signing (tombstoned, force-unstaked), staked again, left through
		// a complete unstaking (record removed, signing info with the tombstone stays), staked once more
		// under a new record and has now been jailed for downtime: its jailed-until is an ordinary date
		"k0-tombstoned-new-record-jailed-for-downtime": {{}, ev0,
			{Events: []chain.Event{txE(chain.TxSpec{Msg: "stake", From: 0, Amount: min})}},
			{Events: []chain.Event{txE(chain.TxSpec{Msg: "unstake", From: 0})}},
			{DT: 3 * time.Second},
			{Events: []chain.Event{txE(chain.TxSpec{Msg: "stake", From: 0, Amount: 2 * min})}},
			{}, {}, {}, {Missed: []int{0}}, {Missed: []int{0}}},
		"k2-joined-k0-jailed": {{Events: []chain.Event{txE(chain.TxSpec{Msg: "stake", From: 2, Amount: 2 * min})}}, {Missed: []int{0}}, {Missed: []int{0}}},
	}
}

// fromStates appends one scenario per named prelude.
func fromStates(scs []Scenario, cfg chain.Config, alphabet []Choice, k, d int, names ...string) []Scenario {
	ps := statePreludes()
	for _, n := range names {
		scs = append(scs, Scenario{Name: "from-" + n, Cfg: cfg, Prelude: ps[n], Alphabet: alphabet, K: k, D: d, Tail: 1})
	}
	return scs
}

// cfgUnstake0: UnstakingTime = 0 (a validator that begins unstaking matures in the same block).
func cfgUnstake0() chain.Config {
	c := baseCfg()
	p := *c.Pos
	p.UnstakingTime = 0
	c.Pos = &p
	return c
}

// bigStake: the base configuration with k0 staking 100·min, so that slashes leave it staked.
func bigStake() chain.Config {
	c := baseCfg()
	c.Vals = []chain.GenVal{{Key: 0, Stake: 100 * min}, {Key: 1, Stake: 3 * min}}
	return c
}

func posScenarios(id, tier string) []Scenario {
	th := tier == "thorough"
	kd := func(qk, qd, tk, td int) (int, int) {
		if th {
			return tk, td
		}
		return qk, qd
	}
	switch id {
	case "C02", "C04":
		// (thorough bounds are sized so that the whole tier finishes well inside its deadline on 16 cores)
		k, d := kd(2, 4, 3, 4)
		k2, d2 := kd(2, 3, 3, 3)
		return fromStates([]Scenario{
			// (+ a fee that carries a denomination its payer does not hold)
			{Name: "2val-rich", Cfg: baseCfg(), Alphabet: append(richAlphabet(), txB("send(k3->k2,1) fee + 5abc (k3 holds no abc)", chain.TxSpec{Msg: "send", From: 3, To: 2, Amount: 1, FeeAbc: 5})), K: k, D: d, Tail: 1},
			{Name: "3val-equal-max2", Cfg: cfg3equal(), Alphabet: append(stakingAlphabet(), setAlphabet()...), K: k2, D: d2, Tail: 1},
			// single miss jails: slashes and burns of an already jailed validator within two deviations
			{Name: "3val-jail-fast", Cfg: cfgJailFast(), Alphabet: append(stakingAlphabet(), jailFastAlphabet()...), K: k2, D: d2, Tail: 1},
			// starting from a non-initial state: k0 has been force-unstaked (record kept, no stake)
			{Name: "2val-k0-force-unstaked", Cfg: baseCfg(), Prelude: []chain.Block{{Events: []chain.Event{{Kind: "burn", Who: 0, Sev: "1"}}}, {}}, Alphabet: stakingAlphabet(), K: k2, D: d2, Tail: 1},
		}, bigStake(), stakingAlphabet(), k2, d2, "k0-jailed", "k0-unstaking", "k0-unstaking-jailed")
	case "C05":
		k, d := kd(2, 4, 3, 4)
		k2, d2 := kd(2, 3, 3, 3)
		return append(fromStates(fromStates([]Scenario{
			{Name: "2val", Cfg: baseCfg(), Alphabet: richAlphabet(), K: k2, D: d2, Tail: 1},
			{Name: "3val-equal-max2", Cfg: cfg3equal(), Alphabet: setAlphabet(), K: k, D: d, Tail: 1},
			{Name: "4val-ordered-max3", Cfg: cfg4ordered(), Alphabet: setAlphabet(), K: k, D: d, Tail: 1},
			{Name: "2val-max1", Cfg: cfgMax1(), Alphabet: setAlphabet(), K: k2, D: d2, Tail: 1},
			{Name: "4val-big-powers-max3", Cfg: cfg4big(), Alphabet: setAlphabetU(64 * min), K: k2, D: d2, Tail: 1},
			{Name: "3val-minstake3-max2", Cfg: cfgMinStake3(), Alphabet: setAlphabet(), K: k2, D: d2, Tail: 1},
			{Name: "3val-jail-fast", Cfg: cfgJailFast(), Alphabet: jailFastAlphabet(), K: k2, D: d2, Tail: 1},
		}, bigStake(), richAlphabet(), k2, d2, "k0-jailed", "k0-unstaking", "k2-joined-k0-jailed"), baseCfg(), stakingAlphabet(), k2, d2, "k0-slashed-half"),
			Scenario{Name: "unstaking-time-0", Cfg: cfgUnstake0(), Alphabet: setAlphabet(), K: 2, D: 3, Tail: 1})
	case "C06":
		k, d := kd(3, 4, 4, 4)
		k2, d2 := kd(2, 4, 3, 3)
		return append(fromStates([]Scenario{
			{Name: "lifecycle", Cfg: baseCfg(), Alphabet: lifecycleAlphabet(), K: k, D: d, Tail: 1},
			{Name: "2val-rich", Cfg: baseCfg(), Alphabet: richAlphabet(), K: k2, D: d2, Tail: 1},
			{Name: "3val-equal-max2", Cfg: cfg3equal(), Alphabet: setAlphabet(), K: k2, D: d2, Tail: 1},
		}, bigStake(), lifecycleAlphabet(), k2, d2, "k0-jailed", "k0-unstaking", "k0-tombstoned", "k0-unstaking-jailed", "k2-joined-k0-jailed"),
			Scenario{Name: "unstaking-time-0", Cfg: cfgUnstake0(), Alphabet: lifecycleAlphabet(), K: 2, D: 3, Tail: 1})
	case "C07":
		k, d := kd(2, 3, 3, 3)
		var scs []Scenario
		for i, c := range c07cfgs() {
			kk := k
			if i >= 5 {
				kk = k - 1 // the extreme-fraction configurations: one deviation less
			}
			scs = append(scs, Scenario{Name: fmt.Sprintf("slash-stake=%d-fdouble=%s-fdown=%s", c.Vals[0].Stake, c.Pos.SlashDoubleStr, c.Pos.SlashDowntimeStr), Cfg: c, Alphabet: slashAlphabet(), K: kk, D: d, Tail: 1})
		}
		// a window of 1 with MinSignedPerWindow = 1: a single miss jails, so slashes of an already
		// jailed validator are within two deviations
		jf := windowCfg(1, 1, 1, 3*min+333333)
		pj := *jf.Pos
		pj.SlashDoubleStr, pj.SlashDowntimeStr = "0.333333333333333333", "0.010000000000000001"
		jf.Pos = &pj
		scs = append(scs, Scenario{Name: "slash-jailed-fast", Cfg: jf, Alphabet: slashAlphabet(), K: k, D: d, Tail: 1})
		bs := bigStake()
		pb := *bs.Pos
		pb.SlashDoubleStr, pb.SlashDowntimeStr = "0.333333333333333333", "0.010000000000000001"
		bs.Pos = &pb
		return fromStates(scs, bs, slashAlphabet(), 2, d, "k0-jailed", "k0-unstaking", "k0-unstaking-jailed")
	case "C08":
		var scs []Scenario
		miss := []Choice{{Label: "M", Block: chain.Block{Missed: []int{0}}}}
		// every signed/missed sequence of length 2W+4 for W = 1..5 (k1 always signs)
		maxW := int64(4)
		if th {
			maxW = 5
		}
		for w := int64(1); w <= maxW; w++ {
			for _, frac := range [][2]int64{{1, 2}, {0, 1}, {1, 4}, {3, 4}, {1, 1}} {
				if !th && w >= 4 && !(frac[0] == 1 && frac[1] == 2) {
					continue
				}
				d := int(2*w + 4)
				scs = append(scs, Scenario{Name: fmt.Sprintf("votes-W=%d-min=%d/%d", w, frac[0], frac[1]), Cfg: windowCfg(w, frac[0], frac[1], 100*min), Alphabet: miss, K: d, D: d})
			}
		}
		// a stake of exactly the minimum: the first downtime slash forces the unstake
		scs = append(scs, Scenario{Name: "votes-W=2-forced-unstake", Cfg: windowCfg(2, 1, 2, min), Alphabet: miss, K: 8, D: 8})
		// interleavings with unjail / re-stake / begin-unstake / late joiner
		inter := []Choice{
			{Label: "M", Block: chain.Block{Missed: []int{0}}},
			{Label: "M+dt2s", Block: chain.Block{Missed: []int{0}, DT: 2 * time.Second}},
			Choice{Label: "dt2s+unjail(k0)", Block: chain.Block{DT: 2 * time.Second, Events: []chain.Event{txE(chain.TxSpec{Msg: "unjail", From: 0})}}},
			txB("unjail(k0) early", chain.TxSpec{Msg: "unjail", From: 0}),
			txB("unstake(k0)", chain.TxSpec{Msg: "unstake", From: 0}),
			txB("stake(k2,2min) joins", chain.TxSpec{Msg: "stake", From: 2, Amount: 2 * min}),
			{Label: "M(k2)", Block: chain.Block{Missed: []int{2}}},
			{Label: "M(k0,k2)", Block: chain.Block{Missed: []int{0, 2}}},
			txB("stake(k0,min) restake", chain.TxSpec{Msg: "stake", From: 0, Amount: min}),
			evB("burn(k0,0.6) forces unstake without jailing", chain.Event{Kind: "burn", Who: 0, Sev: "0.6"}),
			Choice{Label: "M+burn(k0,0.6)", Block: chain.Block{Missed: []int{0}, Events: []chain.Event{{Kind: "burn", Who: 0, Sev: "0.6"}}}},
			// the vote that crosses the threshold and double-sign evidence against the same validator in
			// one block: the votes are handled first (downtime punishment, window cleared), then the evidence
			Choice{Label: "M+evidence(k0)", Block: chain.Block{Missed: []int{0}, Evidence: []chain.Evidence{{Val: 0, HeightAgo: 1, Age: time.Second}}}},
		}
		k, d := kd(3, 5, 4, 6)
		scs = append(scs, Scenario{Name: "interleaved-W=2", Cfg: windowCfg(2, 1, 2, 2*min), Alphabet: inter, K: k, D: d, Tail: 1})
		scs = append(scs, Scenario{Name: "interleaved-W=3", Cfg: windowCfg(3, 1, 2, 2*min), Alphabet: inter, K: k, D: d, Tail: 1})
		kf, df := kd(2, 4, 3, 5)
		scs = fromStates(scs, bigStake(), inter, kf, df, "k0-jailed", "k0-unstaking", "k2-joined-k0-jailed")
		scs = fromStates(scs, windowCfg(3, 1, 2, 2*min), inter, kf, df, "k0-removed-with-misses")
		// a genesis that carries signing state (a state export): k0 has been expected to sign since
		// height -10, three ring positions are used, the misses sit at positions 1 and 2 (position 0
		// was signed and has no entry); every signed/missed sequence from there
		gw := windowCfg(4, 1, 2, 100*min)
		gw.GenSigning = []chain.GenSign{{Key: 0, Start: -10, Offset: 3, Missed: []int64{1, 2}}}
		scs = append(scs, Scenario{Name: "votes-W=4-genesis-with-sparse-missed-array", Cfg: gw, Alphabet: miss, K: 10, D: 10})
		gw2 := windowCfg(5, 3, 4, 100*min)
		gw2.GenSigning = []chain.GenSign{{Key: 0, Start: -3, Offset: 2, Missed: []int64{1}}}
		scs = append(scs, Scenario{Name: "votes-W=5-genesis-with-sparse-missed-array", Cfg: gw2, Alphabet: miss, K: 8, D: 8})
		// a window of more than 255 blocks (the ring index no longer fits one byte): k0 misses the
		// first 300 blocks of a 300-block window with 200 required signatures (no punishment inside the
		// first window), then the alphabet decides what happens around the first jailing and after it
		lw := windowCfg(300, 2, 3, 100*min)
		var pre []chain.Block
		for i := 0; i < 300; i++ {
			pre = append(pre, chain.Block{Missed: []int{0}})
		}
		scs = append(scs, Scenario{Name: "window-300-after-300-misses", Cfg: lw, Prelude: pre, Alphabet: inter, K: 2, D: 2, Tail: 1})
		return scs
	case "C09":
		k, d := kd(3, 4, 3, 5)
		var scs []Scenario
		for _, c := range c09cfgs() {
			scs = append(scs, Scenario{Name: fmt.Sprintf("jail-stake=%d", c.Vals[0].Stake), Cfg: c, Alphabet: jailAlphabet(), K: k, D: d, Tail: 1})
		}
		k2, d2 := kd(2, 4, 3, 5)
		scs = append(scs, Scenario{Name: "3val-jail-fast", Cfg: cfgJailFast(), Alphabet: jailFastAlphabet(), K: k2, D: d2, Tail: 1})
		// the same with two seats for three validators: unjailing below / at the cut-off
		jf2 := cfgJailFast()
		pj := *jf2.Pos
		pj.MaxValidators = 2
		jf2.Pos = &pj
		scs = append(scs, Scenario{Name: "3val-jail-fast-2-seats", Cfg: jf2, Alphabet: jailFastAlphabet(), K: k2, D: d2, Tail: 1})
		scs = fromStates(scs, bigStake(), jailAlphabet(), k2, d2, "k0-jailed", "k0-tombstoned", "k0-unstaking-jailed", "k2-joined-k0-jailed", "k0-tombstoned-new-record-jailed-for-downtime")
		return scs
	case "C10":
		k, d := kd(3, 4, 4, 4)
		ra := rewardAlphabet()
		// (k3 also holds 1000 coins of a second denomination, for fees paid in two denominations)
		withAbc := func(c chain.Config) chain.Config {
			accs := append([]chain.GenAcc{}, c.Accs...)
			for i := range accs {
				if accs[i].Key == 3 {
					accs[i].Abc = 1000
				}
			}
			c.Accs = accs
			return c
		}
		return fromStates([]Scenario{
			{Name: "rewards", Cfg: baseCfg(), Alphabet: ra[:18], K: k, D: d, Tail: 1},
			// + unstaked-but-known proposers, zero awards, transfers to module addresses
			{Name: "rewards-extended", Cfg: withAbc(baseCfg()), Alphabet: ra, K: k - 1, D: d, Tail: 1},
		}, withAbc(bigStake()), ra, k-1, d, "k0-jailed", "k0-unstaking")
	}
	return nil
}

func init() {
	for _, id := range []string{"C02", "C04", "C05", "C06", "C07", "C08", "C09", "C10"} {
		id := id
		registerHist(&HistProp{
			ID:        id,
			Scenarios: func(tier string) []Scenario { return posScenarios(id, tier) },
			Rule:      "for each scenario (genesis configuration + alphabet of deviating blocks, listed under scenarios): all histories of D blocks (+ trailing default blocks) with at most K deviating blocks (default block = everybody signs, +1 s, first validator proposes, no event); enumerated in order of increasing deviations; non-trivial = at least one transaction succeeded or the validator set changed",
			QuickS:    280, ThoroughS: 1700,
		})
	}
}
