package checks

import (
	"time"

	"verif/internal/chain"
)

const min = chain.MinStake

// base configuration: validators key0 (2·min) and key1 (3·min); accounts key0..key4 with 5·min
// each; key4 owns every parameter and the DAO. Small custom pos parameters so that unstaking
// maturity, downtime and jail expiry are reachable within a few blocks (the same values are
// reachable on a live chain through MsgChangeParam).
func baseCfg() chain.Config {
	pp := chain.PosParams{
		UnstakingTime: 3 * time.Second, MaxValidators: 10, StakeMinimum: min, MaxEvidenceAge: 120 * time.Second,
		Window: 2, MinSignedNum: 1, MinSignedDen: 2, JailDuration: 2 * time.Second,
		SlashDoubleStr: "0.05", SlashDowntimeStr: "0.01",
	}
	return chain.Config{
		Vals:      []chain.GenVal{{Key: 0, Stake: 2 * min}, {Key: 1, Stake: 3 * min}},
		Accs:      []chain.GenAcc{{Key: 0, Balance: 5 * min}, {Key: 1, Balance: 5 * min}, {Key: 2, Balance: 5 * min}, {Key: 3, Balance: 5 * min}, {Key: 4, Balance: 5 * min}},
		DAOTokens: 1000000, Owner: 4, DAOOwner: 4, Pos: &pp, Pruning: [2]int64{0, 1},
	}
}

func txB(label string, t chain.TxSpec) Choice {
	return Choice{Label: label, Block: chain.Block{Events: []chain.Event{{Kind: "tx", Tx: &t}}}}
}

func evB(label string, e chain.Event) Choice {
	return Choice{Label: label, Block: chain.Block{Events: []chain.Event{e}}}
}

// stakingAlphabet is the union alphabet of the staking-state explorers.
func stakingAlphabet() []Choice {
	return []Choice{
		txB("stake(k2,min)", chain.TxSpec{Msg: "stake", From: 2, Amount: min}),
		txB("stake(k2,2min+999999)", chain.TxSpec{Msg: "stake", From: 2, Amount: 2*min + 999999}),
		txB("stake(k2,min-1)", chain.TxSpec{Msg: "stake", From: 2, Amount: min - 1}),
		txB("stake(k2,10min)", chain.TxSpec{Msg: "stake", From: 2, Amount: 10 * min}),
		txB("stake(k0,min)", chain.TxSpec{Msg: "stake", From: 0, Amount: min}),
		txB("unstake(k2)", chain.TxSpec{Msg: "unstake", From: 2}),
		txB("unstake(k0)", chain.TxSpec{Msg: "unstake", From: 0}),
		txB("unjail(k0)", chain.TxSpec{Msg: "unjail", From: 0}),
		txB("unjail(k2)", chain.TxSpec{Msg: "unjail", From: 2}),
		txB("send(k3->k2,1)", chain.TxSpec{Msg: "send", From: 3, To: 2, Amount: 1}),
		txB("send_pool(k3,1000)", chain.TxSpec{Msg: "send_pool", From: 3, Amount: 1000}),
		{Label: "dt=3s", Block: chain.Block{DT: 3 * time.Second}},
		{Label: "miss(k0)", Block: chain.Block{Missed: []int{0}}},
		{Label: "evidence(k0)", Block: chain.Block{Evidence: []chain.Evidence{{Val: 0, HeightAgo: 1, Age: time.Second}}}},
		{Label: "evidence(k2)", Block: chain.Block{Evidence: []chain.Evidence{{Val: 2, HeightAgo: 1, Age: time.Second}}}},
		evB("burn(k0,0.5)", chain.Event{Kind: "burn", Who: 0, Sev: "0.5"}),
		evB("burn(k0,0.000001)", chain.Event{Kind: "burn", Who: 0, Sev: "0.000001"}),
		evB("burn(k2,0.5)", chain.Event{Kind: "burn", Who: 2, Sev: "0.5"}),
		evB("award(k3,100)", chain.Event{Kind: "award", Who: 3, Amount: 100}),
		evB("award(k2,7)", chain.Event{Kind: "award", Who: 2, Amount: 7}),
		{Label: "prop=k1", Block: chain.Block{Proposer: 2}},
	}
}

func init() {
	for _, id := range []string{"C02", "C04", "C05", "C06", "C07", "C08", "C09", "C10"} {
		id := id
		registerHist(&HistProp{
			ID: id,
			Scenarios: func(tier string) []Scenario {
				k, d := 2, 4
				if tier == "thorough" {
					k, d = 3, 5
				}
				return []Scenario{{Name: "staking-2val", Cfg: baseCfg(), Alphabet: stakingAlphabet(), K: k, D: d, Tail: 1}}
			},
			Rule:   "all histories of D blocks (+1 trailing default block) with at most K deviating blocks drawn from the staking alphabet (one event per deviating block); non-trivial = at least one transaction succeeded or the validator set changed",
			QuickS: 240, ThoroughS: 1500,
		})
	}
}
