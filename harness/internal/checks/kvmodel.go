package checks

import (
	"bytes"
	"fmt"
	"sort"
)

// kvMap is the boring reference model of a key/value store: a map, iterated in sorted order.
type kvMap map[string][]byte

func (m kvMap) clone() kvMap {
	c := kvMap{}
	for k, v := range m {
		c[k] = v
	}
	return c
}

type kvPair struct{ K, V []byte }

func inDomain(key, start, end []byte) bool {
	if start != nil && bytes.Compare(key, start) < 0 {
		return false
	}
	if end != nil && bytes.Compare(key, end) >= 0 {
		return false
	}
	return true
}

// iterate returns the pairs of the domain [start,end) in the requested direction.
func (m kvMap) iterate(start, end []byte, asc bool) []kvPair {
	var ks []string
	for k := range m {
		if inDomain([]byte(k), start, end) {
			ks = append(ks, k)
		}
	}
	sort.Strings(ks)
	if !asc {
		for i, j := 0, len(ks)-1; i < j; i, j = i+1, j-1 {
			ks[i], ks[j] = ks[j], ks[i]
		}
	}
	out := make([]kvPair, 0, len(ks))
	for _, k := range ks {
		out = append(out, kvPair{[]byte(k), m[k]})
	}
	return out
}

func pairsString(ps []kvPair) string {
	var b bytes.Buffer
	for _, p := range ps {
		fmt.Fprintf(&b, "%q=%q ", p.K, p.V)
	}
	return b.String()
}

func pairsEqual(a, b []kvPair) bool {
	if len(a) != len(b) {
		return false
	}
	for i := range a {
		if !bytes.Equal(a[i].K, b[i].K) || !bytes.Equal(a[i].V, b[i].V) {
			return false
		}
	}
	return true
}

// kvIter is the minimal iterator surface used by the harnesses.
type kvIter interface {
	Valid() bool
	Next()
	Key() []byte
	Value() []byte
	Close()
}

// drain reads an iterator to the end (bounded, so a non-terminating iterator is reported).
func drain(it kvIter, bound int) (ps []kvPair, err string) {
	defer func() {
		if r := recover(); r != nil {
			err = fmt.Sprint("panic: ", r)
		}
	}()
	for n := 0; it.Valid(); n++ {
		if n > bound {
			return ps, "iterator does not terminate"
		}
		ps = append(ps, kvPair{append([]byte(nil), it.Key()...), append([]byte(nil), it.Value()...)})
		it.Next()
	}
	it.Close()
	return ps, ""
}
