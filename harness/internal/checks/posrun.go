package checks

// Runs one chain history under the reference model and the state invariants; shared by the
// history explorers of C02, C04-C10.

import (
	"bytes"
	"encoding/binary"
	"fmt"
	"math/big"
	"sort"
	"strings"
	"time"

	sdk "github.com/pokt-network/posmint/types"
	abci "github.com/tendermint/tendermint/abci/types"

	"verif/internal/chain"
	"verif/internal/ev"
	"verif/internal/posmodel"
)

// Finding is one oracle failure attributed to a property.
type Finding struct {
	Prop string
	Sig  string
	What string
}

// HistReplay is the self-contained replay artefact of a history.
type HistReplay struct {
	Scenario string        `json:"scenario"`
	Cfg      chain.Config  `json:"cfg"`
	Prelude  []chain.Block `json:"prelude,omitempty"`
	Blocks   []chain.Block `json:"blocks"`
	Pretty   []string      `json:"pretty,omitempty"`
}

// HistResult is what one history execution produced.
type HistResult struct {
	Transitions int
	Hashes      []uint64
	Outcome     string
	Nontrivial  bool
	Findings    []Finding
	Died        string // panic in Begin/End/Commit
}

type posRunner struct {
	props      map[string]bool
	d          *chain.Driver
	cur        chain.View
	res        *HistResult
	direct     *big.Int // coins sent to the pool address directly
	stop       bool
	height     int64
	now        time.Time
	voteHist   map[string][]bool // per validator: outcomes since last reset (C08 history oracle)
	anyOK      bool
	setChanged bool
	outcome    []string
	minStake0  int64               // the minimum stake at the start of the history
	minChanged bool                // governance has changed it since
	qAwards    map[string]*big.Int // the model's own award and burn queues (see model())
	qBurns     map[string]*big.Int
	inPrelude  bool
	other0     string // total held in other denominations after InitChain
}

func (r *posRunner) want(p string) bool { return r.props[p] }

func (r *posRunner) report(prop, sig, what string) {
	if !r.want(prop) || r.inPrelude && false {
		return
	}
	r.res.Findings = append(r.res.Findings, Finding{prop, prop + "|" + sig, what})
	r.stop = true
}

func uniqSorted(xs []string) []string {
	m := map[string]bool{}
	for _, x := range xs {
		m[x] = true
	}
	var out []string
	for x := range m {
		out = append(out, x)
	}
	sort.Strings(out)
	return out
}

// fieldProps maps a diff field to the properties it is evidence against, given the call.
func fieldProps(call string, notes []string, f string) []string {
	has := func(prefix string) bool {
		for _, n := range notes {
			if strings.HasPrefix(n, prefix) {
				return true
			}
		}
		return false
	}
	slash := has("burn:") || has("downtime") || has("evidence:confirmed")
	var ps []string
	switch {
	case f == "supply":
		ps = append(ps, "C02")
		if call == "BeginBlock" && has("award") {
			ps = append(ps, "C10")
		}
		if call == "BeginBlock" && slash {
			ps = append(ps, "C07")
		}
	case f == "bal:pool":
		ps = append(ps, "C04")
		if call == "BeginBlock" && slash {
			ps = append(ps, "C07")
		}
		if call == "BeginBlock" && has("award") {
			ps = append(ps, "C10")
		}
	case f == "bal:fee" || f == "bal:pos":
		if call == "BeginBlock" {
			ps = append(ps, "C10")
		} else {
			ps = append(ps, "C02")
		}
	case f == "bal:dao":
		ps = append(ps, "C02")
	case f == "bal:acct":
		switch {
		case call == "BeginBlock":
			ps = append(ps, "C10")
			if slash {
				ps = append(ps, "C07")
			}
		case call == "EndBlock":
			ps = append(ps, "C04", "C06")
		case call == "tx:stake":
			ps = append(ps, "C04", "C02")
		default:
			ps = append(ps, "C02")
		}
	case f == "val.stake":
		switch {
		case call == "BeginBlock":
			ps = append(ps, "C07")
		case call == "tx:stake":
			ps = append(ps, "C04", "C06")
		default:
			ps = append(ps, "C06", "C04")
		}
	case f == "val.status" || f == "val.exists" || f == "val.unstakeAt":
		ps = append(ps, "C06")
		if call == "BeginBlock" && slash {
			ps = append(ps, "C07")
		}
	case f == "val.jailed":
		ps = append(ps, "C09")
		if has("downtime") {
			ps = append(ps, "C08")
		}
	case strings.HasPrefix(f, "info."):
		if f == "info.tomb" || f == "info.until" {
			ps = append(ps, "C09")
			if has("downtime") {
				ps = append(ps, "C08")
			}
		} else {
			ps = append(ps, "C08")
		}
	case f == "awards" || f == "proposer":
		ps = append(ps, "C10")
	case f == "burns":
		ps = append(ps, "C07")
	}
	return ps
}

func (r *posRunner) compare(call string, want *posmodel.State, after chain.View) {
	got := posmodel.FromView(after)
	diffs := posmodel.Compare(want, got)
	if len(diffs) == 0 {
		return
	}
	notes := uniqSorted(want.Notes)
	byProp := map[string][]posmodel.Diff{}
	for _, d := range diffs {
		for _, p := range fieldProps(call, notes, d.Field) {
			byProp[p] = append(byProp[p], d)
		}
	}
	for p, ds := range byProp {
		if !r.want(p) {
			continue
		}
		var fs, whats []string
		for _, d := range ds {
			fs = append(fs, d.Field)
			whats = append(whats, d.String())
		}
		sig := fmt.Sprintf("%s|%s|%s", call, strings.Join(notes, "+"), strings.Join(uniqSorted(fs), "+"))
		r.report(p, sig, fmt.Sprintf("after %s at height %d (%s): %s", call, r.height, strings.Join(notes, ","), strings.Join(whats, "; ")))
	}
}

// invariants evaluates the state-derived invariants on a view.
func (r *posRunner) invariants(call string, v chain.View, notes []string) {
	ns := strings.Join(uniqSorted(notes), "+")
	// C10: the fee distribution of BeginBlock empties the fee collector, whatever the denominations
	// the fees were paid in (what is not paid out stays in the pos module account)
	if call == "BeginBlock" && r.want("C10") && r.height > 1 {
		// (the staking denomination is the model's business: an award minted to the collector's own
		// address arrives after the distribution; nothing mints the other denominations)
		if o := v.Other[chain.FeeAddr]; o != "" {
			r.report("C10", "inv:fee-collector-not-empty-after-distribution|"+ns, fmt.Sprintf("after BeginBlock at height %d the fee collector still holds %s", r.height, o))
		}
	}
	// C02: nothing mints or burns the other denominations, so their total over all accounts stays
	// what it was after InitChain
	if r.want("C02") {
		total := sdk.Coins{}
		for _, o := range v.Other {
			if o != "" {
				if c, err := sdk.ParseCoins(o); err == nil {
					total = total.Add(c)
				}
			}
		}
		if call == "InitChain" {
			r.other0 = total.String()
		} else if total.String() != r.other0 {
			r.report("C02", fmt.Sprintf("inv:other-denominations-total-changed|%s|%s", call, ns), fmt.Sprintf("after %s at height %d the accounts hold [%s] in other denominations, after InitChain [%s]; nothing mints or burns them", call, r.height, total.String(), r.other0))
		}
	}
	// C02 (i),(ii)
	if !v.SumBalances().Equal(v.Supply) {
		r.report("C02", fmt.Sprintf("inv:sum-balances!=supply|%s|%s", call, ns), fmt.Sprintf("after %s at height %d: sum of balances %s != supply %s", call, r.height, v.SumBalances(), v.Supply))
	}
	if v.NegBalance {
		r.report("C02", fmt.Sprintf("inv:negative-balance|%s|%s", call, ns), "a negative balance or supply component exists")
	}
	// C04
	sum := sdk.ZeroInt()
	min := int64(0)
	for _, vv := range v.Vals {
		if vv.Status != 255 && vv.Status != sdk.Unstaked {
			sum = sum.Add(vv.Stake)
		}
	}
	sum = sum.Add(sdk.NewIntFromBigInt(new(big.Int).Set(r.direct)))
	if !v.Pool.Equal(sum) {
		r.report("C04", fmt.Sprintf("inv:pool!=sum-of-stakes|%s|%s", call, ns), fmt.Sprintf("after %s at height %d: staked pool holds %s but staked+unstaking validators record %s (incl. %s sent directly)", call, r.height, v.Pool, sum, r.direct))
	}
	// C06 index invariants
	if r.want("C06") || r.want("C05") {
		p := posmodel.ParamsFromView(v)
		min = p.Min
		wantIdx := map[string]string{}
		for _, vv := range v.Vals {
			if vv.Status == sdk.Staked && !vv.Jailed {
				key := make([]byte, 1+8+sdk.AddrLen)
				key[0] = 0x23
				binary.BigEndian.PutUint64(key[1:9], uint64(new(big.Int).Quo(vv.Stake.BigInt(), big.NewInt(1000000)).Int64()))
				for i, b := range vv.Addr {
					key[9+i] = ^b
				}
				wantIdx[string(key)] = string(vv.Addr)
			}
		}
		gotIdx := map[string]string{}
		for _, kv := range v.PowerIndex {
			gotIdx[string(kv.K)] = string(kv.V)
		}
		var extra, missing []string
		for k, a := range gotIdx {
			if wantIdx[k] != a {
				st := "no-record"
				for _, vv := range v.Vals {
					if string(vv.Addr) == a && vv.Status != 255 {
						st = strings.ToLower(vv.Status.String())
						if vv.Jailed {
							st += "+jailed"
						}
						if wa, ok := wantIdx[k]; !ok || wa != a {
							// entry exists for this validator but under a key that is not its current one
							for wk, wa2 := range wantIdx {
								if wa2 == a && wk != k {
									st += "+stale-key"
								}
							}
						}
					}
				}
				extra = append(extra, st)
			}
		}
		for k := range wantIdx {
			if _, ok := gotIdx[k]; !ok {
				missing = append(missing, "staked-unjailed")
			}
		}
		if len(extra)+len(missing) > 0 {
			sig := fmt.Sprintf("inv:power-index|extra=%s|missing=%s|%s|%s", strings.Join(uniqSorted(extra), ","), strings.Join(uniqSorted(missing), ","), call, ns)
			r.report("C06", sig, fmt.Sprintf("after %s at height %d: power index differs from {staked, unjailed validators keyed by current power}: unexpected entries for %v, missing entries for %v", call, r.height, extra, missing))
		}
		// queue: every unstaking validator is listed at its own completion time
		q := map[string][]string{}
		for _, kv := range v.UnstakeQ {
			var addrs []sdk.Address
			r.d.App.Cdc.MustUnmarshalBinaryLengthPrefixed(kv.V, &addrs)
			for _, a := range addrs {
				q[string(kv.K[1:])] = append(q[string(kv.K[1:])], string(a))
			}
		}
		for _, vv := range v.Vals {
			if vv.Status == sdk.Unstaking {
				k := string(sdk.FormatTimeBytes(vv.UnstakeAt))
				found := false
				for _, a := range q[k] {
					if a == string(vv.Addr) {
						found = true
					}
				}
				if !found {
					r.report("C06", fmt.Sprintf("inv:unstaking-not-queued|%s|%s", call, ns), fmt.Sprintf("after %s at height %d: unstaking validator key%d is not queued at its completion time %s", call, r.height, vv.Key, vv.UnstakeAt))
				}
			}
			// "(while the minimum-stake parameter is unchanged)": suspended for the rest of a history once
			// governance has moved the minimum
			if r.minStake0 == 0 {
				r.minStake0 = min
			}
			if min != r.minStake0 {
				r.minChanged = true
			}
			if !r.minChanged && vv.Status != 255 && vv.Status != sdk.Unstaked && vv.Stake.LT(sdk.NewInt(min)) {
				r.report("C06", fmt.Sprintf("inv:below-minimum|%s|%s", call, ns), fmt.Sprintf("after %s at height %d: validator key%d is %s with stake %s below the minimum %d", call, r.height, vv.Key, vv.Status, vv.Stake, min))
			}
		}
		// queue entries must refer to validators that are unstaking with that completion time
		for k, addrs := range q {
			for _, a := range addrs {
				ok := false
				for _, vv := range v.Vals {
					if string(vv.Addr) == a && vv.Status == sdk.Unstaking && string(sdk.FormatTimeBytes(vv.UnstakeAt)) == k {
						ok = true
					}
				}
				if !ok {
					r.report("C06", fmt.Sprintf("inv:stale-queue-entry|%s|%s", call, ns), fmt.Sprintf("after %s at height %d: unstaking queue lists %s at %s, which is not an unstaking validator with that completion time", call, r.height, shortAddr(a), k))
				}
			}
		}
	}
	// C08: counter equals number of set bits
	for _, vv := range v.Vals {
		if vv.HasInfo {
			n := int64(0)
			for _, b := range vv.MissedBits {
				if b {
					n++
				}
			}
			if n != vv.Info.MissedBlocksCounter {
				r.report("C08", fmt.Sprintf("inv:counter!=bits|%s|%s", call, ns), fmt.Sprintf("after %s at height %d: validator key%d counter %d but %d missed bits stored", call, r.height, vv.Key, vv.Info.MissedBlocksCounter, n))
			}
		}
	}
}

func shortAddr(a string) string {
	if k := chain.KeyIndexByAddr([]byte(a), 16); k >= 0 {
		return fmt.Sprintf("key%d", k)
	}
	return fmt.Sprintf("%X", a)
}

func (r *posRunner) view() chain.View {
	d := r.d.App.RawDump()
	h := d.Hash()
	var hb [8]byte
	copy(hb[:], h[:8])
	// state identity: store content + height + time + pending validator-set pipeline
	x := binary.LittleEndian.Uint64(hb[:]) ^ uint64(r.d.Height)*0x9E3779B97F4A7C15 ^ uint64(r.d.Time.UnixNano())
	x ^= hashStr(r.d.CurSet.String() + "|" + r.d.NextSet.String())
	r.res.Hashes = append(r.res.Hashes, x)
	return r.d.App.Decode(d)
}

func hashStr(s string) uint64 {
	var h uint64 = 1469598103934665603
	for i := 0; i < len(s); i++ {
		h ^= uint64(s[i])
		h *= 1099511628211
	}
	return h
}

func votesOf(req abci.RequestBeginBlock) []posmodel.Vote {
	var vs []posmodel.Vote
	for _, v := range req.LastCommitInfo.Votes {
		vs = append(vs, posmodel.Vote{Addr: string(v.Validator.Address), Power: v.Validator.Power, Signed: v.SignedLastBlock})
	}
	return vs
}

func evsOf(req abci.RequestBeginBlock) []posmodel.Ev {
	var es []posmodel.Ev
	for _, e := range req.ByzantineValidators {
		es = append(es, posmodel.Ev{Addr: string(e.Validator.Address), Height: e.Height, Time: e.Time, Power: e.Validator.Power})
	}
	return es
}

// model re-anchors the reference model on the state the implementation is in, except for the award
// and burn queues: those are the model's own (they are filled only by the events the harness
// injects and emptied by the model's BeginBlock), so an order the implementation fails to consume,
// or consumes twice, shows in what it does to stakes and supply later and not only in the queue.
func (r *posRunner) model() *posmodel.State {
	want := posmodel.FromView(r.cur)
	if r.qAwards != nil {
		want.Awards, want.Burns = cloneQ(r.qAwards), cloneQ(r.qBurns)
	}
	return want
}

func (r *posRunner) keepQueues(want *posmodel.State) {
	r.qAwards, r.qBurns = cloneQ(want.Awards), cloneQ(want.Burns)
}

func cloneQ(m map[string]*big.Int) map[string]*big.Int {
	out := map[string]*big.Int{}
	for k, v := range m {
		out[k] = new(big.Int).Set(v)
	}
	return out
}

func (r *posRunner) hooks() *chain.Hooks {
	return &chain.Hooks{
		AfterBegin: func(d *chain.Driver, req abci.RequestBeginBlock) {
			r.height, r.now = req.Header.Height, req.Header.Time
			want := r.model()
			want.SpecBeginBlock(req.Header.Height, req.Header.Time, string(req.Header.ProposerAddress), votesOf(req), evsOf(req))
			r.keepQueues(want)
			after := r.view()
			r.compare("BeginBlock", want, after)
			r.invariants("BeginBlock", after, want.Notes)
			r.c08history(req, after, want)
			r.cur = after
			r.res.Transitions++
		},
		AfterEvent: func(d *chain.Driver, i int, e chain.Event, tr *chain.TxResult) {
			want := r.model()
			call := "ev:" + e.Kind
			switch e.Kind {
			case "tx":
				call = "tx:" + e.Tx.Msg
				msg := chain.BuildMsg(*e.Tx)
				req := chain.RequiredFee(msg)
				fee := e.Tx.Fee
				if fee == 0 {
					fee = req
				} else if fee < 0 {
					fee = 0
				}
				out := want.SpecDeliverTx(*e.Tx, fee, req, r.now, r.height)
				okGot := tr.Code == 0
				if !out.Unjudged && okGot != out.OK {
					p := "C06"
					switch e.Tx.Msg {
					case "unjail":
						p = "C09"
					case "send", "send_pool", "send_module":
						p = "C02"
					}
					why := out.Why
					if out.OK {
						why = "all preconditions hold"
					}
					r.report(p, fmt.Sprintf("%s|result|want-ok=%v|%s", call, out.OK, strings.ReplaceAll(why, " ", "-")), fmt.Sprintf("%s at height %d returned code %d but the statements require ok=%v (%s); log: %.200s", e.Tx, r.height, tr.Code, out.OK, why, tr.Log))
				}
				if out.Unjudged {
					// governance messages are judged by C17; here only the state-derived invariants and
					// the supply rule (moves only by a successful DAO burn) are evaluated, then re-anchor
					after := r.view()
					wantSupply := r.cur.Supply
					if okGot && e.Tx.Msg == "dao_burn" {
						wantSupply = wantSupply.Sub(sdk.NewInt(e.Tx.Amount))
					}
					if !after.Supply.Equal(wantSupply) {
						r.report("C02", fmt.Sprintf("%s|supply|ok=%v", call, okGot), fmt.Sprintf("%s at height %d (code %d): supply %s -> %s, expected %s", e.Tx, r.height, tr.Code, r.cur.Supply, after.Supply, wantSupply))
					}
					r.invariants(call, after, nil)
					r.cur = after
					r.res.Transitions++
					return
				}
				if okGot && (e.Tx.Msg == "send_pool" || e.Tx.Msg == "send_module" && chain.ModuleAddr(e.Tx.Key) == chain.PoolAddr) {
					r.direct.Add(r.direct, big.NewInt(e.Tx.Amount))
				}
				if okGot {
					r.anyOK = true
				}
				r.outcome = append(r.outcome, fmt.Sprintf("%s:%d", e.Tx.Msg, tr.Code))
			case "award":
				a := string(chain.Addr(e.Who))
				if want.Awards[a] == nil {
					want.Awards[a] = new(big.Int)
				}
				want.Awards[a].Add(want.Awards[a], big.NewInt(e.Amount))
			case "burn":
				a := string(chain.Addr(e.Who))
				sev, _ := sdk.NewDecFromStr(e.Sev)
				if want.Burns[a] == nil {
					want.Burns[a] = new(big.Int)
				}
				want.Burns[a].Add(want.Burns[a], sev.Int)
			}
			r.keepQueues(want)
			after := r.view()
			r.compare(call, want, after)
			r.invariants(call, after, want.Notes)
			r.cur = after
			r.res.Transitions++
		},
		AfterEnd: func(d *chain.Driver, ups []abci.ValidatorUpdate) {
			want := r.model()
			want.SpecEndBlock(r.now)
			after := r.view()
			r.compare("EndBlock", want, after)
			r.invariants("EndBlock", after, want.Notes)
			r.cur = after
			r.res.Transitions++
			if len(ups) > 0 {
				r.setChanged = true
			}
			r.outcome = append(r.outcome, "u"+fmt.Sprint(len(ups)))
		},
		AfterCommit: func(d *chain.Driver) {
			// C05 / C09: Tendermint's set after applying the updates
			st := posmodel.FromView(r.cur)
			exp := chain.TMSet(st.ExpectedSet())
			got := d.NextSet
			if r.want("C05") {
				if n := len(d.RuleErrs); n > 0 {
					e := d.RuleErrs[n-1]
					cls := "rule"
					switch {
					case strings.Contains(e, "duplicate"):
						cls = "duplicate-key"
					case strings.Contains(e, "removal"):
						cls = "removal-of-absent"
					case strings.Contains(e, "negative"):
						cls = "negative-power"
					}
					r.report("C05", "updates-not-applicable|"+cls+"|"+r.setContext(st), fmt.Sprintf("height %d: %s", d.Height, e))
					d.RuleErrs = nil
				}
				if setString(exp) != setString(got) {
					r.report("C05", "set-mismatch|"+r.setContext(st), fmt.Sprintf("height %d: after applying the updates Tendermint has {%s} but the staked, unjailed top-%d is {%s}", d.Height, setString(got), st.P.MaxVals, setString(exp)))
				}
			}
			if r.want("C09") {
				for _, tv := range got {
					if v := st.Vals[string(tv.Addr)]; v != nil && v.Exists && v.Jailed {
						r.report("C09", "jailed-in-set|"+r.setContext(st), fmt.Sprintf("height %d: jailed validator %s has power %d in Tendermint's set", d.Height, shortAddr(string(tv.Addr)), tv.Power))
					}
				}
				// a validator that was jailed at some time and is staked and unjailed now has exactly the
				// power of its remaining stake, subject to the MaxValidators cut-off
				for a, v := range st.Vals {
					if !v.Exists || v.Status != posmodel.Staked || v.Jailed || !v.HasInfo || !v.Until.After(time.Unix(0, 0)) {
						continue
					}
					ei, gi := exp.Find([]byte(a)), got.Find([]byte(a))
					switch {
					case ei < 0 && gi >= 0:
						r.report("C09", "unjailed-beyond-the-cut-off-has-power", fmt.Sprintf("height %d: validator %s (jailed earlier, unjailed now) ranks below the top-%d but has power %d in Tendermint's set {%s}", d.Height, shortAddr(a), st.P.MaxVals, got[gi].Power, setString(got)))
					case ei >= 0 && (gi < 0 || got[gi].Power != exp[ei].Power):
						r.report("C09", "unjailed-power", fmt.Sprintf("height %d: validator %s (jailed earlier, unjailed now) must have power %d; Tendermint's set is {%s}", d.Height, shortAddr(a), exp[ei].Power, setString(got)))
					}
				}
			}
		},
	}
}

// setContext classifies the state for set-related signatures: which anomalous validator classes exist.
func (r *posRunner) setContext(st *posmodel.State) string {
	var cs []string
	for _, kv := range r.cur.PowerIndex {
		a := string(kv.V)
		v := st.Vals[a]
		switch {
		case v == nil || !v.Exists:
			cs = append(cs, "index-entry-without-record")
		case v.Status != posmodel.Staked:
			cs = append(cs, "index-entry-for-"+[]string{"unstaked", "unstaking", "staked"}[v.Status])
		case v.Jailed:
			cs = append(cs, "index-entry-for-jailed")
		}
	}
	if len(cs) == 0 {
		return "index-clean"
	}
	return strings.Join(uniqSorted(cs), "+")
}

func setString(s []chain.TMVal) string {
	var b bytes.Buffer
	for _, v := range s {
		fmt.Fprintf(&b, "%s:%d ", shortAddr(string(v.Addr)), v.Power)
	}
	return strings.TrimSpace(b.String())
}

// c08history is the history-based oracle of C08: the counter equals the number of misses among
// the last W outcomes since the last reset, and punishment happens exactly when the statement says.
func (r *posRunner) c08history(req abci.RequestBeginBlock, after chain.View, want *posmodel.State) {
	if !r.want("C08") {
		return
	}
	p := posmodel.ParamsFromView(after)
	for _, v := range req.LastCommitInfo.Votes {
		a := string(v.Validator.Address)
		before := posmodel.FromView(r.cur).Vals[a]
		if before == nil || !before.HasInfo {
			continue
		}
		h := append(r.voteHist[a], !v.SignedLastBlock)
		if before.Offset == 0 && before.Counter == 0 {
			// the window was (re)started: only this outcome counts
			h = []bool{!v.SignedLastBlock}
		}
		if int64(len(h)) > p.W {
			h = h[int64(len(h))-p.W:]
		}
		misses := int64(0)
		for _, m := range h {
			if m {
				misses++
			}
		}
		var now *chain.ValView
		for i := range after.Vals {
			if string(after.Vals[i].Addr) == a {
				now = &after.Vals[i]
			}
		}
		if now == nil || !now.HasInfo {
			continue
		}
		wasJailed := before.Exists && before.Jailed
		shouldPunish := req.Header.Height > before.Start+p.W && misses > p.W-p.MinSigned() && before.Exists && !wasJailed
		punished := now.Status != 255 && now.Jailed && !wasJailed && !hasEvidenceFor(req, a)
		if shouldPunish != punished && !hasEvidenceFor(req, a) {
			r.report("C08", fmt.Sprintf("history:punish-timing|should=%v", shouldPunish), fmt.Sprintf("height %d validator %s: %d misses in its window of %d (max %d), start %d: punishment expected=%v happened=%v", req.Header.Height, shortAddr(a), misses, p.W, p.W-p.MinSigned(), before.Start, shouldPunish, punished))
		}
		if shouldPunish {
			h = nil
			if now.Info.MissedBlocksCounter != 0 || now.Info.IndexOffset != 0 || len(now.MissedBits) != 0 {
				r.report("C08", "history:window-not-cleared", fmt.Sprintf("height %d validator %s: jailed for downtime but counter=%d offset=%d bits=%d", req.Header.Height, shortAddr(a), now.Info.MissedBlocksCounter, now.Info.IndexOffset, len(now.MissedBits)))
			}
		} else if now.Info.MissedBlocksCounter != misses {
			r.report("C08", "history:counter!=window-misses", fmt.Sprintf("height %d validator %s: counter %d but %d misses among its last %d expected blocks", req.Header.Height, shortAddr(a), now.Info.MissedBlocksCounter, misses, len(h)))
		}
		r.voteHist[a] = h
	}
}

func hasEvidenceFor(req abci.RequestBeginBlock, a string) bool {
	for _, e := range req.ByzantineValidators {
		if string(e.Validator.Address) == a {
			return true
		}
	}
	return false
}

// RunPosHistory runs prelude+blocks on a fresh instance under the model for the given properties.
func RunPosHistory(cfg chain.Config, prelude, blocks []chain.Block, props ...string) HistResult {
	res := HistResult{}
	r := &posRunner{props: map[string]bool{}, res: &res, direct: new(big.Int), voteHist: map[string][]bool{}}
	for _, p := range props {
		r.props[p] = true
	}
	d := chain.NewDriver(cfg)
	defer d.Close()
	r.d = d
	r.cur = r.view()
	hk := r.hooks()
	// a genesis that carries signing state (C08): InitChain imports it position by position, and the
	// history oracle starts from it (ring positions below the offset, oldest first; the ring has not
	// wrapped in these configurations)
	if r.want("C08") {
		for _, g := range cfg.GenSigning {
			a := string(chain.Addr(g.Key))
			missed := map[int64]bool{}
			for _, i := range g.Missed {
				missed[i] = true
			}
			var h []bool
			for i := int64(0); i < g.Offset; i++ {
				h = append(h, missed[i])
			}
			r.voteHist[a] = h
			info, bits, ok := r.cur.Info(g.Key)
			var got []int64
			for i, m := range bits {
				if m {
					got = append(got, i)
				}
			}
			sort.Slice(got, func(i, j int) bool { return got[i] < got[j] })
			if !ok || info.IndexOffset != g.Offset || info.StartHeight != g.Start || info.MissedBlocksCounter != int64(len(g.Missed)) || fmt.Sprint(got) != fmt.Sprint(append([]int64{}, g.Missed...)) {
				r.report("C08", "genesis-import|signing-state", fmt.Sprintf("genesis gives validator %s start %d offset %d misses at ring positions %v; after InitChain: found=%v start %d offset %d counter %d misses at %v", shortAddr(a), g.Start, g.Offset, g.Missed, ok, info.StartHeight, info.IndexOffset, info.MissedBlocksCounter, got))
			}
		}
	}
	// InitChain validators (C05)
	if r.want("C05") {
		st := posmodel.FromView(r.cur)
		if len(d.RuleErrs) > 0 {
			r.report("C05", "initchain|updates-not-applicable", strings.Join(d.RuleErrs, "; "))
		}
		if setString(st.ExpectedSet()) != setString(d.NextSet) {
			r.report("C05", "initchain|set-mismatch", fmt.Sprintf("InitChain validators {%s} but the staked, unjailed top-%d is {%s}", setString(d.NextSet), st.P.MaxVals, setString(st.ExpectedSet())))
		}
	}
	r.invariants("InitChain", r.cur, nil)
	all := append(append([]chain.Block{}, prelude...), blocks...)
	for i, b := range all {
		if r.stop || d.Dead {
			break
		}
		r.inPrelude = i < len(prelude)
		before := r.cur
		br := d.RunBlock(b, hk)
		if br.Panic != "" {
			res.Died = br.Panic
			r.classifyPanic(br, b, before)
			break
		}
	}
	res.Nontrivial = r.anyOK || r.setChanged
	res.Outcome = strings.Join(r.outcome, ",")
	return res
}

func (r *posRunner) classifyPanic(br chain.BlockResult, b chain.Block, before chain.View) {
	what := fmt.Sprintf("height %d: %.300s", br.Height, br.Panic)
	switch {
	case strings.HasPrefix(br.Panic, "BeginBlock"):
		// replay the spec to see what was going on
		want := posmodel.FromView(before)
		req := r.d.BeginReq(b)
		want.SpecBeginBlock(req.Header.Height, req.Header.Time, string(req.Header.ProposerAddress), votesOf(req), evsOf(req))
		notes := strings.Join(uniqSorted(want.Notes), "+")
		if !want.MustReturn {
			return // statement silent (e.g. burn queued for an address without record)
		}
		prop := "C10"
		switch {
		case strings.Contains(notes, "evidence") || strings.Contains(notes, "burn:"):
			prop = "C07"
		case strings.Contains(notes, "downtime") || strings.Contains(notes, "miss"):
			prop = "C08"
		}
		// the cause of a panic while handling evidence is the first evidence item the statements
		// say must be ignored (unknown / removed / unstaked / tombstoned target)
		for _, n := range want.Notes {
			switch n {
			case "evidence:unknown", "evidence:removed", "evidence:unstaked", "evidence:tombstoned":
				r.report("C07", "BeginBlock-panic|"+n, what)
				return
			}
		}
		r.report(prop, "BeginBlock-panic|"+notes, what)
	case strings.HasPrefix(br.Panic, "EndBlock"):
		st := posmodel.FromView(r.cur)
		r.report("C05", "EndBlock-panic|"+r.setContext(st), what)
		r.report("C06", "EndBlock-panic|"+r.setContext(st), what)
		// a jailed validator that has consensus power (an entry in the staked-power index) is
		// what C09 forbids; EndBlock returning nothing is how it shows
		jailedInIndex := strings.Contains(r.setContext(st), "index-entry-for-jailed")
		for _, kv := range r.cur.PowerIndex {
			// (also a jailed validator that is no longer staked: force-unstaked and jailed in one step)
			if v := st.Vals[string(kv.V)]; v != nil && v.Exists && v.Jailed {
				jailedInIndex = true
			}
		}
		if jailedInIndex {
			r.report("C09", "EndBlock-panic|"+r.setContext(st), what)
		}
	default:
		r.report("C02", "Commit-panic", what)
	}
}

// reportAll pushes findings of a history into the run; returns true if any was not a known finding.
func reportAll(run *ev.Run, prop string, fs []Finding, rep HistReplay) bool {
	bad := false
	for _, f := range fs {
		if f.Prop != prop {
			continue
		}
		if !run.Report(f.Sig, f.What, rep) {
			bad = true
		}
	}
	return bad
}
