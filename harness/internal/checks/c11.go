package checks

// C11 — rejected transactions and read-only calls leave no trace. Histories mixing state-changing
// blocks with a catalogue of rejected transactions, CheckTx, Simulate and Query calls at every
// position; the oracle is full-dump equality around each such call (modulo the fee of a
// transaction that passed the ante handler), plus a control run without the read-only calls.

import (
	"fmt"
	"strings"
	"time"

	sdk "github.com/pokt-network/posmint/types"
	authTypes "github.com/pokt-network/posmint/x/auth/types"
	posTypes "github.com/pokt-network/posmint/x/pos/types"

	"verif/internal/chain"
)

func qEv(label, path string, data []byte, height int64, prove bool) chain.Event {
	return chain.Event{Kind: "query", Path: path, Data: data, Height: height, Prove: prove}
}

func c11rawTx(mod string) []byte {
	valid := chain.Build(chain.TxSpec{Msg: "send", From: 3, To: 2, Amount: 5, Entropy: 424242})
	switch mod {
	case "empty":
		return []byte{}
	case "one-byte":
		return []byte{0x01}
	case "truncated":
		return valid[:len(valid)/2]
	case "length-lie":
		x := append([]byte{}, valid...)
		x[0] ^= 0x7f
		return x
	case "garbage":
		return []byte(strings.Repeat("\xff\x00garbage", 8))
	case "flipped-body": // decodes, but the signature no longer matches
		x := append([]byte{}, valid...)
		x[len(x)/3] ^= 0x01
		return x
	}
	return valid
}

// c11judged: events whose effect the oracle judges (rejected transactions and read-only calls).
func c11judged() []Choice {
	tx := func(label string, t chain.TxSpec) Choice { return txB(label, t) }
	var cs []Choice
	// (a) undecodable / corrupted bytes
	for _, m := range []string{"empty", "one-byte", "truncated", "length-lie", "garbage", "flipped-body"} {
		cs = append(cs, tx("raw:"+m, chain.TxSpec{Msg: "raw", Raw: c11rawTx(m)}))
	}
	// (b) ValidateBasic failures
	cs = append(cs,
		tx("send(amount=0)", chain.TxSpec{Msg: "send", From: 3, To: 2, Amount: 0}),
		tx("send(amount=-1)", chain.TxSpec{Msg: "send", From: 3, To: 2, Amount: -1}),
		tx("stake(value=0)", chain.TxSpec{Msg: "stake", From: 2, Amount: 0}),
		tx("dao_transfer(amount=0)", chain.TxSpec{Msg: "dao_transfer", From: 4, To: 2, Amount: 0}),
		tx("change_param(empty key)", chain.TxSpec{Msg: "change_param", From: 4, Key: "", Val: `"1"`}),
		tx("upgrade(height=0)", chain.TxSpec{Msg: "upgrade", From: 4, Height: 0, Val: "1.0"}),
	)
	// (b2) unusual transactions that are accepted today: judged only if they are rejected (a transfer
	// is debited before it is credited, so a credit step that starts to fail would leave a trace)
	cs = append(cs,
		tx("send(to a 23-byte address)", chain.TxSpec{Msg: "send", From: 3, To: 6000 + 9, Amount: 5}),
		tx("send(to a 19-byte address)", chain.TxSpec{Msg: "send", From: 3, To: 2000 + 9, Amount: 5}),
		tx("send(to the signer itself)", chain.TxSpec{Msg: "send", From: 3, To: 3, Amount: 5}),
		tx("dao_transfer(to a 23-byte address)", chain.TxSpec{Msg: "dao_transfer", From: 4, To: 6000 + 9, Amount: 5}),
		tx("send(to a module address)", chain.TxSpec{Msg: "send_module", From: 3, Key: "pos", Amount: 5}),
		tx("send(more than the balance, to an address never seen)", chain.TxSpec{Msg: "send", From: 3, To: 14, Amount: 1000 * min}),
		tx("send(more than the balance, to a 23-byte address never seen)", chain.TxSpec{Msg: "send", From: 3, To: 6000 + 14, Amount: 1000 * min}),
	)
	// (c) ante failures
	cs = append(cs,
		tx("send(signed by other key)", chain.TxSpec{Msg: "send", From: 3, To: 2, Amount: 5, SignBy: 2 + 1}),
		tx("send(fee-1)", chain.TxSpec{Msg: "send", From: 3, To: 2, Amount: 5, Fee: 9999}),
		tx("send(no fee)", chain.TxSpec{Msg: "send", From: 3, To: 2, Amount: 5, Fee: -1}),
		tx("send(unknown account)", chain.TxSpec{Msg: "send", From: 9, To: 2, Amount: 5}),
		tx("send(no key, unknown account)", chain.TxSpec{Msg: "send", From: 9, To: 2, Amount: 5, NoPK: true}),
		tx("send(memo too long)", chain.TxSpec{Msg: "send", From: 3, To: 2, Amount: 5, Memo: strings.Repeat("m", 300)}),
	)
	// (d) handler precondition failures (the fee is paid)
	cs = append(cs,
		tx("stake(k2,min-1)", chain.TxSpec{Msg: "stake", From: 2, Amount: min - 1}),
		tx("stake(k2,min) (fails once the stake denomination was changed)", chain.TxSpec{Msg: "stake", From: 2, Amount: min}),
		tx("send(memo=abc) (fails once the memo limit was lowered)", chain.TxSpec{Msg: "send", From: 3, To: 2, Amount: 5, Memo: "abc"}),
		tx("stake(k2,100min)", chain.TxSpec{Msg: "stake", From: 2, Amount: 100 * min}),
		tx("stake(k0,min) already staked", chain.TxSpec{Msg: "stake", From: 0, Amount: min}),
		tx("stake(secp key)", chain.TxSpec{Msg: "stake", From: 100, Amount: min}),
		tx("unstake(k3) unknown", chain.TxSpec{Msg: "unstake", From: 3}),
		tx("unjail(k0) not jailed", chain.TxSpec{Msg: "unjail", From: 0}),
		tx("unstake(k0) (panics in the handler once the minimum stake was raised above its stake)", chain.TxSpec{Msg: "unstake", From: 0}),
		tx("unjail(k3) unknown", chain.TxSpec{Msg: "unjail", From: 3}),
		tx("send(overdraft)", chain.TxSpec{Msg: "send", From: 3, To: 2, Amount: 1000 * min}),
		tx("change_param(non owner)", chain.TxSpec{Msg: "change_param", From: 3, Key: "pos/StakeMinimum", Val: `"2000000"`}),
		tx("change_param(owner, malformed)", chain.TxSpec{Msg: "change_param", From: 4, Key: "pos/StakeMinimum", Val: `{"x`}),
		tx("change_param(owner, wrong type)", chain.TxSpec{Msg: "change_param", From: 4, Key: "pos/StakeMinimum", Val: `"abc"`}),
		// struct-valued parameters whose first field is well formed and a later one is not (a decoder
		// that fills fields in order has touched the value by the time it fails)
		tx("change_param(auth/FeeMultipliers, later field malformed)", chain.TxSpec{Msg: "change_param", From: 4, Key: "auth/FeeMultipliers", Val: c17partial()["auth/FeeMultipliers"]}),
		tx("change_param(gov/upgrade, later field malformed)", chain.TxSpec{Msg: "change_param", From: 4, Key: "gov/upgrade", Val: c17partial()["gov/upgrade"]}),
		tx("change_param(gov/acl, later entry malformed)", chain.TxSpec{Msg: "change_param", From: 4, Key: "gov/acl", Val: c17partial()["gov/acl"]}),
		tx("change_param(unknown key)", chain.TxSpec{Msg: "change_param", From: 4, Key: "pos/Nope", Val: `"1"`}),
		tx("change_param(no separator)", chain.TxSpec{Msg: "change_param", From: 4, Key: "nokey", Val: `"1"`}),
		tx("change_param(unknown parameter space, by the owner)", chain.TxSpec{Msg: "change_param", From: 4, Key: "nosuchspace/SomeParam", Val: `"1"`}),
		tx("change_param(unknown parameter space, by a stranger)", chain.TxSpec{Msg: "change_param", From: 3, Key: "nosuchspace/SomeParam", Val: `"1"`}),
		tx("upgrade(by the owner, height already reached)", chain.TxSpec{Msg: "upgrade", From: 4, Height: 1, Val: "2.0.0"}),
		tx("change_param(gov/acl := empty list, by the owner)", chain.TxSpec{Msg: "change_param", From: 4, Key: "gov/acl", Val: `[]`}),
		tx("change_param(gov/acl := one entry, by the owner)", chain.TxSpec{Msg: "change_param", From: 4, Key: "gov/acl", Val: fmt.Sprintf(`[{"acl_key":"gov/acl","address":"%s"}]`, chain.Addr(4))}),
		tx("dao_transfer(beyond the balance, to an address never seen)", chain.TxSpec{Msg: "dao_transfer", From: 4, To: 14, Amount: 1000 * min}),
		tx("change_param(three path elements)", chain.TxSpec{Msg: "change_param", From: 3, Key: "pos/StakeMinimum/x", Val: `"1"`}),
		tx("upgrade(non owner)", chain.TxSpec{Msg: "upgrade", From: 3, Height: 99, Val: "2.0"}),
		tx("dao_transfer(non owner)", chain.TxSpec{Msg: "dao_transfer", From: 3, To: 2, Amount: 5}),
		tx("dao_transfer(overdraft)", chain.TxSpec{Msg: "dao_transfer", From: 4, To: 2, Amount: 1000 * min}),
		tx("dao_transfer(amount=-1)", chain.TxSpec{Msg: "dao_transfer", From: 4, To: 2, Amount: -1}),
		tx("dao_burn(overdraft)", chain.TxSpec{Msg: "dao_burn", From: 4, Amount: 1000 * min}),
		tx("dao(unknown action)", chain.TxSpec{Msg: "dao_transfer", From: 4, To: 2, Amount: 5, Val: "steal"}),
	)
	// (e) read-only calls
	valid := chain.TxSpec{Msg: "send", From: 3, To: 2, Amount: 7}
	stake := chain.TxSpec{Msg: "stake", From: 2, Amount: min}
	bad := chain.TxSpec{Msg: "send", From: 3, To: 2, Amount: 7, SignBy: 2 + 1}
	ro := func(label string, e chain.Event) Choice { return evB(label, e) }
	cs = append(cs,
		ro("check(valid send)", chain.Event{Kind: "check", Tx: &valid}),
		ro("check(valid stake)", chain.Event{Kind: "check", Tx: &stake}),
		ro("check(bad sig)", chain.Event{Kind: "check", Tx: &bad}),
		ro("check(garbage)", chain.Event{Kind: "check", Tx: &chain.TxSpec{Msg: "raw", Raw: c11rawTx("garbage")}}),
		ro("simulate(valid send)", chain.Event{Kind: "simulate", Tx: &valid}),
		ro("simulate(valid stake)", chain.Event{Kind: "simulate", Tx: &stake}),
		ro("simulate(unstake k0)", chain.Event{Kind: "simulate", Tx: &chain.TxSpec{Msg: "unstake", From: 0}}),
		ro("simulate(bad sig)", chain.Event{Kind: "simulate", Tx: &bad}),
		ro("simulate(garbage)", chain.Event{Kind: "simulate", Tx: &chain.TxSpec{Msg: "raw", Raw: c11rawTx("garbage")}}),
	)
	accKey := append([]byte{0x01}, chain.Addr(3)...)
	jm := func(v interface{}) []byte { return posTypes.ModuleCdc.MustMarshalJSON(v) }
	cs = append(cs,
		ro("query(app/version)", qEv("", "/app/version", nil, 0, false)),
		ro("query(store/auth/key)", qEv("", "/store/auth/key", accKey, 0, false)),
		ro("query(store/auth/key,prove)", qEv("", "/store/auth/key", accKey, 0, true)),
		ro("query(store/auth/key,h=1)", qEv("", "/store/auth/key", accKey, 1, false)),
		ro("query(store/auth/key,h=99)", qEv("", "/store/auth/key", accKey, 99, true)),
		ro("query(store/pos/subspace)", qEv("", "/store/pos/subspace", []byte{0x21}, 0, false)),
		ro("query(store/nosuch/key)", qEv("", "/store/nosuch/key", accKey, 0, false)),
		ro("query(custom/pos/validators)", qEv("", "/custom/pos/validators", jm(posTypes.NewQueryValidatorsParams(1, 100)), 0, false)),
		ro("query(custom/pos/staked_validators)", qEv("", "/custom/pos/staked_validators", jm(posTypes.NewQueryStakedValidatorsParams(1, 100)), 0, false)),
		ro("query(custom/pos/stakedPool)", qEv("", "/custom/pos/stakedPool", nil, 0, false)),
		ro("query(custom/pos/parameters)", qEv("", "/custom/pos/parameters", nil, 0, false)),
		ro("query(custom/pos/account_balance)", qEv("", "/custom/pos/account_balance", jm(posTypes.QueryAccountBalanceParams{Address: chain.Addr(3)}), 0, false)),
		ro("query(custom/pos/signingInfos)", qEv("", "/custom/pos/signingInfos", jm(posTypes.NewQueryValidatorsParams(1, 100)), 0, false)),
		ro("query(custom/auth/account)", qEv("", "/custom/auth/account", authTypes.ModuleCdc.MustMarshalJSON(authTypes.NewQueryAccountParams(chain.Addr(3))), 0, false)),
		ro("query(custom/auth/account,unknown)", qEv("", "/custom/auth/account", authTypes.ModuleCdc.MustMarshalJSON(authTypes.NewQueryAccountParams(chain.Addr(9))), 0, false)),
		ro("query(custom/gov/acl)", qEv("", "/custom/gov/acl", nil, 0, false)),
		ro("query(custom/gov/dao)", qEv("", "/custom/gov/dao", nil, 0, false)),
		ro("query(custom/gov/upgrade)", qEv("", "/custom/gov/upgrade", nil, 0, false)),
		ro("query(custom/pos/nosuch)", qEv("", "/custom/pos/nosuch", nil, 0, false)),
		ro("query(custom/nosuch)", qEv("", "/custom/nosuch/x", nil, 0, false)),
		ro("query(custom/pos/validators,h=1)", qEv("", "/custom/pos/validators", jm(posTypes.NewQueryValidatorsParams(1, 100)), 1, false)),
		ro("query(custom/pos/validators,h=99)", qEv("", "/custom/pos/validators", jm(posTypes.NewQueryValidatorsParams(1, 100)), 99, false)),
		ro("query(p2p/filter/addr)", qEv("", "/p2p/filter/addr/1.2.3.4:5", nil, 0, false)),
		ro("query(p2p/filter/id)", qEv("", "/p2p/filter/id/abcdef", nil, 0, false)),
		ro("query(empty path)", qEv("", "", nil, 0, false)),
		ro("query(unknown root)", qEv("", "/zzz", nil, 0, false)),
	)
	return cs
}

// c11context: state-changing blocks that put the chain into different states around the judged calls.
func c11context() []Choice {
	return []Choice{
		txB("ctx:stake(k2,min)", chain.TxSpec{Msg: "stake", From: 2, Amount: min}),
		txB("ctx:unstake(k0)", chain.TxSpec{Msg: "unstake", From: 0}),
		{Label: "ctx:miss(k0)x", Block: chain.Block{Missed: []int{0}}},
		{Label: "ctx:evidence(k0)", Block: chain.Block{Evidence: []chain.Evidence{{Val: 0, HeightAgo: 1, Age: time.Second}}}},
		txB("ctx:raise-min", chain.TxSpec{Msg: "change_param", From: 4, Key: "pos/StakeMinimum", Val: `"2500000"`}),
		txB("ctx:send(k3->k2)", chain.TxSpec{Msg: "send", From: 3, To: 2, Amount: 11}),
		txB("ctx:change-stake-denom", chain.TxSpec{Msg: "change_param", From: 4, Key: "pos/StakeDenom", Val: `"ustake"`}),
		txB("ctx:change-unstaking-time", chain.TxSpec{Msg: "change_param", From: 4, Key: "pos/UnstakingTime", Val: `"1"`}),
		txB("ctx:lower-memo-limit", chain.TxSpec{Msg: "change_param", From: 4, Key: "auth/MaxMemoCharacters", Val: `"2"`}),
	}
}

// c11lifecycle: the validator life-cycle messages and their read-only twins, explored from the
// non-initial states of statePreludes (jailed, unstaking, unstaking while jailed, tombstoned): which
// of them is refused depends on the state; whichever is refused must leave no trace.
func c11lifecycle() []Choice {
	unjail := chain.TxSpec{Msg: "unjail", From: 0}
	at := func(label string, dt time.Duration, e chain.Event) Choice {
		return Choice{Label: label, Block: chain.Block{DT: dt, Events: []chain.Event{e}}}
	}
	return []Choice{
		txB("unjail(k0)", unjail),
		at("dt=2s unjail(k0)", 2*time.Second, txE(unjail)),
		at("dt=3s unjail(k0)", 3*time.Second, txE(unjail)),
		at("dt=2s simulate(unjail k0)", 2*time.Second, chain.Event{Kind: "simulate", Tx: &unjail}),
		at("dt=2s check(unjail k0)", 2*time.Second, chain.Event{Kind: "check", Tx: &unjail}),
		txB("unstake(k0)", chain.TxSpec{Msg: "unstake", From: 0}),
		txB("stake(k0,min)", chain.TxSpec{Msg: "stake", From: 0, Amount: min}),
		txB("stake(k0,4min)", chain.TxSpec{Msg: "stake", From: 0, Amount: 4 * min}),
		txB("unjail(k1) not jailed", chain.TxSpec{Msg: "unjail", From: 1}),
		{Label: "dt=3s", Block: chain.Block{DT: 3 * time.Second}},
		{Label: "miss(k0)", Block: chain.Block{Missed: []int{0}}},
		txB("raise-min", chain.TxSpec{Msg: "change_param", From: 4, Key: "pos/StakeMinimum", Val: `"2500000"`}),
	}
}

// c11sandwich: the judged event placed alone / before / between / after valid transactions.
func c11sandwich(judged []Choice) []Choice {
	v1 := chain.Event{Kind: "tx", Tx: &chain.TxSpec{Msg: "send", From: 3, To: 2, Amount: 3}}
	v2 := chain.Event{Kind: "tx", Tx: &chain.TxSpec{Msg: "send", From: 4, To: 3, Amount: 4}}
	var out []Choice
	for _, j := range judged {
		e := j.Block.Events[0]
		out = append(out,
			Choice{Label: j.Label, Block: chain.Block{Events: []chain.Event{e}}},
			Choice{Label: "[" + j.Label + ", valid]", Block: chain.Block{Events: []chain.Event{e, v1}}},
			Choice{Label: "[valid, " + j.Label + ", valid]", Block: chain.Block{Events: []chain.Event{v1, e, v2}}},
			Choice{Label: "[valid, " + j.Label + "]", Block: chain.Block{Events: []chain.Event{v1, e}}},
		)
	}
	return out
}

// c11hostile: every truncation and every single-bit flip of two valid transactions, each delivered
// between two valid transactions.
func c11hostile() []Choice {
	v1 := chain.Event{Kind: "tx", Tx: &chain.TxSpec{Msg: "send", From: 3, To: 2, Amount: 3}}
	v2 := chain.Event{Kind: "tx", Tx: &chain.TxSpec{Msg: "send", From: 4, To: 3, Amount: 4}}
	var out []Choice
	for ti, spec := range []chain.TxSpec{{Msg: "send", From: 3, To: 2, Amount: 5, Entropy: 424242}, {Msg: "stake", From: 2, Amount: min, Entropy: 424243}} {
		raw := chain.Build(spec)
		add := func(label string, m []byte) {
			e := chain.Event{Kind: "tx", Tx: &chain.TxSpec{Msg: "raw", Raw: append([]byte{}, m...)}}
			out = append(out, Choice{Label: label, Block: chain.Block{Events: []chain.Event{v1, e, v2}}})
		}
		for l := 0; l < len(raw); l++ {
			add(fmt.Sprintf("tx%d truncated to %d", ti, l), raw[:l])
		}
		for i := range raw {
			for b := 0; b < 8; b++ {
				m := append([]byte{}, raw...)
				m[i] ^= 1 << uint(b)
				add(fmt.Sprintf("tx%d bit %d.%d flipped", ti, i, b), m)
			}
		}
	}
	return out
}

func isReadOnly(e chain.Event) bool {
	return e.Kind == "check" || e.Kind == "simulate" || e.Kind == "query"
}

func evClass(e chain.Event) string {
	switch e.Kind {
	case "tx":
		if e.Tx.Msg == "raw" {
			return "tx:raw"
		}
		return "tx:" + e.Tx.Msg
	case "query":
		p := strings.Split(strings.TrimPrefix(e.Path, "/"), "/")
		if len(p) >= 2 {
			return "query:" + p[0] + "/" + p[1]
		}
		return "query:" + e.Path
	}
	if e.Tx != nil {
		return e.Kind + ":" + e.Tx.Msg
	}
	return e.Kind
}

// RunC11History executes the history under the no-trace oracle.
func RunC11History(cfg chain.Config, prelude, blocks []chain.Block) HistResult {
	res := HistResult{}
	report := func(sig, what string) {
		res.Findings = append(res.Findings, Finding{"C11", "C11|" + sig, what})
	}
	d := chain.NewDriver(cfg)
	defer d.Close()
	var beforeDump chain.Dump
	var before chain.View
	var outcome []string
	hk := &chain.Hooks{
		BeforeEvent: func(dd *chain.Driver, i int, e chain.Event) {
			beforeDump = dd.App.RawDump()
			before = dd.App.Decode(beforeDump)
		},
		AfterEvent: func(dd *chain.Driver, i int, e chain.Event, tr *chain.TxResult) {
			res.Transitions++
			afterDump := dd.App.RawDump()
			h := afterDump.Hash()
			res.Hashes = append(res.Hashes, uint64(h[0])|uint64(h[1])<<8|uint64(h[2])<<16|uint64(h[3])<<24|uint64(h[4])<<32|uint64(h[5])<<40|uint64(h[6])<<48|uint64(h[7])<<56)
			if tr == nil {
				return
			}
			outcome = append(outcome, fmt.Sprintf("%s:%d", evClass(e), tr.Code))
			diff := beforeDump.Diff(afterDump)
			if tr.Code == chain.PanicCode {
				when := ""
				if dd.Height == 0 {
					when = "|before-first-commit"
				}
				report("call-panics-outside-recover|"+evClass(e)+when, fmt.Sprintf("%s at height %d panicked outside any recover (the process would exit): %.300s", e, dd.Height+1, tr.Log))
				return
			}
			switch {
			case isReadOnly(e):
				if len(diff) > 0 {
					report("read-only-call-changed-state|"+evClass(e), fmt.Sprintf("%s at height %d changed the application state: %s", e, dd.Height+1, strings.Join(diff, ", ")))
				}
			case e.Kind == "tx" && tr.Code != 0:
				after := dd.App.Decode(afterDump)
				if !hasActionEvent(*tr) && !strings.Contains(tr.Log, "recovered:") {
					// refused before the message handler ran (decode / ValidateBasic / ante): nothing at all may change
					if len(diff) > 0 {
						report("refused-tx-changed-state|"+evClass(e), fmt.Sprintf("%s at height %d (code %d, refused before the handler) changed state: %s", e, dd.Height+1, tr.Code, strings.Join(diff, ", ")))
					}
					return
				}
				// the handler returned an error or panicked: only the fee may have moved signer -> fee collector
				fee := after.FeePool.Sub(before.FeePool)
				if fee.IsNegative() {
					report("failed-tx-fee-negative|"+evClass(e), fmt.Sprintf("%s at height %d: fee collector lost %s", e, dd.Height+1, fee))
					return
				}
				signer := ""
				if e.Tx.Msg != "raw" {
					signer = string(chain.BuildMsg(*e.Tx).GetSigner())
				}
				for _, x := range diff {
					ok := false
					if strings.HasPrefix(x, "auth/01") && len(x) >= len("auth/01")+40 {
						addr := x[len("auth/01") : len("auth/01")+40]
						if strings.HasSuffix(x, " changed") && strings.EqualFold(addr, fmt.Sprintf("%X", signer)) {
							ok = true
						}
						// the fee collector account record is created by its first receipt
						if !strings.HasSuffix(x, " removed") && strings.EqualFold(addr, fmt.Sprintf("%X", chain.FeeAddr)) {
							ok = true
						}
					}
					if !ok {
						report("failed-tx-left-trace|"+evClass(e), fmt.Sprintf("%s at height %d (code %d, handler failed) left a trace beyond its fee: %s", e, dd.Height+1, tr.Code, strings.Join(diff, ", ")))
						return
					}
				}
				if signer != "" && !fee.IsZero() {
					lost := before.Balances[signer].Sub(after.Balances[signer])
					if !lost.Equal(fee) {
						report("failed-tx-signer-delta|"+evClass(e), fmt.Sprintf("%s at height %d: signer balance moved by -%s, fee collector by +%s", e, dd.Height+1, lost, fee))
					}
				}
			case e.Kind == "tx":
				res.Nontrivial = true
			}
		},
	}
	all := append(append([]chain.Block{}, prelude...), blocks...)
	hasRO := false
	for _, b := range all {
		for _, e := range b.Events {
			if isReadOnly(e) {
				hasRO = true
			}
		}
	}
	for _, b := range all {
		if d.Dead || len(res.Findings) > 0 {
			break
		}
		br := d.RunBlock(b, hk)
		res.Transitions += 3
		if br.Panic != "" {
			res.Died = br.Panic
			break
		}
	}
	// control run: the same history without the read-only calls must produce the same responses and hashes
	if hasRO && len(res.Findings) == 0 && !d.Dead {
		c := chain.NewDriver(cfg)
		defer c.Close()
		for _, b := range all {
			nb := b
			nb.Events = nil
			for _, e := range b.Events {
				if !isReadOnly(e) {
					nb.Events = append(nb.Events, e)
				}
			}
			if c.Dead {
				break
			}
			c.RunBlock(nb, nil)
			res.Transitions += 3
		}
		for i := range d.Results {
			if i >= len(c.Results) {
				break
			}
			if a, b := d.Results[i].Canon(), c.Results[i].Canon(); a != b {
				var cls []string
				for _, e := range all[i].Events {
					if isReadOnly(e) {
						cls = append(cls, evClass(e))
					}
				}
				prev := ""
				if i > 0 {
					for _, e := range all[i-1].Events {
						if isReadOnly(e) {
							prev = "|after:" + evClass(e)
						}
					}
				}
				report("responses-differ-from-control|"+strings.Join(cls, "+")+prev, fmt.Sprintf("block %d: with the read-only calls: %.300s ... without them: %.300s", i+1, a, b))
				break
			}
		}
	}
	res.Outcome = strings.Join(outcome, ",")
	_ = sdk.ZeroInt
	return res
}

func c11cfg() chain.Config {
	cfg := baseCfg()
	cfg.Accs = append(cfg.Accs, chain.GenAcc{Key: 100, Balance: 5 * min})
	return cfg
}

func init() {
	registerHist(&HistProp{
		ID: "C11",
		Scenarios: func(tier string) []Scenario {
			judged := c11judged()
			sand := c11sandwich(judged)
			ctx := c11context()
			scs := []Scenario{
				// every judged call at every position of a block, from genesis+1 and one block later
				{Name: "positions", Cfg: c11cfg(), Alphabet: sand, K: 1, D: 2, Tail: 1},
				// every judged call after every context block (jailed / unstaking / tombstoned / raised minimum ...)
				{Name: "after-context", Cfg: c11cfg(), Alphabet: append(append([]Choice{}, ctx...), judged...), K: 2, D: 2, Tail: 1},
			}
			// a genesis without DAO tokens (module accounts that a refused transaction would be the first to touch)
			noDAO := c11cfg()
			noDAO.DAOTokens = 0
			scs = append(scs, Scenario{Name: "positions-genesis-without-dao-tokens", Cfg: noDAO, Alphabet: sand, K: 1, D: 1, Tail: 1})
			hostile := c11hostile()
			if tier != "thorough" {
				// quick: every 3rd mutation (the thorough tier runs all of them)
				var sub []Choice
				for i, c := range hostile {
					if i%3 == 0 {
						sub = append(sub, c)
					}
				}
				hostile = sub
			}
			scs = append(scs, Scenario{Name: "hostile-bytes", Cfg: c11cfg(), Alphabet: hostile, K: 1, D: 1, Tail: 1})
			kl, dl := 2, 2
			if tier == "thorough" {
				kl, dl = 3, 3
			}
			scs = fromStates(scs, c11cfg(), c11lifecycle(), kl, dl, "k0-jailed", "k0-unstaking", "k0-unstaking-jailed", "k0-tombstoned", "k0-slashed-half")
			if tier == "thorough" {
				scs = append(scs, Scenario{Name: "after-2-contexts", Cfg: c11cfg(), Alphabet: append(append([]Choice{}, ctx...), judged...), K: 3, D: 3, Tail: 1})
			}
			return scs
		},
		Run: func(sc *Scenario, blocks []chain.Block) HistResult {
			return RunC11History(sc.Cfg, sc.Prelude, blocks)
		},
		Rule:   "catalogue of judged calls: undecodable/corrupted bytes (6), ValidateBasic failures (6), unusual transfers (7), ante failures (6), handler precondition failures and handler panics (22), CheckTx (4), Simulate (5), Query (26: store key/subspace/proof/heights, custom queries of all modules, app, p2p, malformed paths); each placed alone, before, between and after valid transactions, and after every pair of context blocks (stake, begin-unstake, missed vote, double-sign evidence, raised minimum stake, transfer); the validator life-cycle messages (unjail before/at/after the jail time, begin-unstake, stake again, their Simulate/CheckTx twins) from the non-initial states jailed / unstaking / unstaking-while-jailed / tombstoned / slashed; non-trivial = a state-changing transaction also succeeded in the history",
		QuickS: 240, ThoroughS: 1500,
		Assume: []string{"a transaction counts as refused-before-the-handler when its result carries no message/action event; otherwise the handler ran and only signer -> fee collector may move", "the control run removes the read-only calls and must produce byte-identical consensus responses and app hashes"},
	})
}
