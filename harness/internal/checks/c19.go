package checks

// C19 — signatures bind key and message; stored keys survive export/import.
// Exhaustive verification matrices for single keys and multisignatures; exhaustive operation
// sequences on real keybases against a map model.

import (
	"bytes"
	"fmt"
	"os"
	"path/filepath"
	"runtime"
	"sort"
	"strings"
	"sync"

	"github.com/pokt-network/posmint/crypto"
	"github.com/pokt-network/posmint/crypto/keys"
	"github.com/pokt-network/posmint/crypto/keys/mintkey"
	sdk "github.com/pokt-network/posmint/types"

	"verif/internal/chain"
	"verif/internal/ev"
)

type c19 struct {
	run       *ev.Run
	mu        sync.Mutex
	eval      int64
	kinds     map[string]int64
	notes     map[string]int
	kbOps     int64               // keybase operations executed
	kbNontriv int64               // keybase programs in which an operation succeeded and one was refused
	kbStates  map[uint64]struct{} // distinct final (keybase 1, keybase 2) model states reached
}

func (c *c19) kbNote(nops, succ int, m1, m2 kbModel) {
	var parts []string
	for a, p := range m1 {
		parts = append(parts, "1:"+a+"="+p)
	}
	for a, p := range m2 {
		parts = append(parts, "2:"+a+"="+p)
	}
	sort.Strings(parts)
	h := hashStr(strings.Join(parts, ";"))
	c.mu.Lock()
	c.kbOps += int64(nops)
	if succ > 0 && succ < nops {
		c.kbNontriv++
	}
	if c.kbStates == nil {
		c.kbStates = map[uint64]struct{}{}
	}
	c.kbStates[h] = struct{}{}
	c.mu.Unlock()
}

func (c *c19) fail(sig, what string, rep interface{}) {
	c.mu.Lock()
	c.run.Report(sig, what, rep)
	c.mu.Unlock()
}
func (c *c19) note(s string) {
	c.mu.Lock()
	if c.notes == nil {
		c.notes = map[string]int{}
	}
	c.notes[s]++
	c.mu.Unlock()
}
func (c *c19) count(k string, n int64) { c.mu.Lock(); c.eval += n; c.kinds[k] += n; c.mu.Unlock() }

func safeVerify(pk crypto.PublicKey, msg, sig []byte) (ok bool, panicked string) {
	defer func() {
		if r := recover(); r != nil {
			panicked = fmt.Sprint(r)
		}
	}()
	return pk.VerifyBytes(msg, sig), ""
}

func (c *c19) singleKeys() {
	keyIdx := []int{0, 1, 100, 101}
	m := []byte("the quick brown fox")
	mf := append([]byte{}, m...)
	mf[3] ^= 0x01
	msgs := [][]byte{{}, m, mf, append(append([]byte{}, m...), 0), bytes.Repeat([]byte("k"), 1024)}
	type signed struct {
		k   int
		m   int
		sig []byte
	}
	var sigs []signed
	for _, k := range keyIdx {
		for mi, msg := range msgs {
			s, err := chain.Key(k).Sign(msg)
			if err != nil {
				c.fail("C19|sign-error", fmt.Sprintf("key %d cannot sign message %d: %v", k, mi, err), nil)
				continue
			}
			sigs = append(sigs, signed{k, mi, s})
		}
	}
	n := int64(0)
	for _, s := range sigs {
		for _, k := range keyIdx {
			for mi, msg := range msgs {
				n++
				want := k == s.k && mi == s.m
				got, p := safeVerify(chain.Pub(k), msg, s.sig)
				rep := map[string]interface{}{"signed_by_key": s.k, "signed_msg": s.m, "verify_key": k, "verify_msg": mi}
				if p != "" {
					c.fail("C19|single|verify-panics", fmt.Sprintf("VerifyBytes panicked: %s (%v)", p, rep), rep)
				} else if got != want {
					c.fail(fmt.Sprintf("C19|single|verify=%v-want=%v", got, want), fmt.Sprintf("signature of key %d over message %d verifies=%v under key %d for message %d", s.k, s.m, got, k, mi), rep)
				}
			}
		}
		// every single-bit flip and every truncation of a valid signature must fail
		for i := 0; i < len(s.sig)*8; i++ {
			n++
			x := append([]byte{}, s.sig...)
			x[i/8] ^= 1 << uint(i%8)
			if got, p := safeVerify(chain.Pub(s.k), msgs[s.m], x); got || p != "" {
				c.fail("C19|single|bit-flipped-signature-accepted", fmt.Sprintf("key %d message %d: signature with bit %d flipped verifies=%v panic=%q", s.k, s.m, i, got, p), map[string]interface{}{"key": s.k, "msg": s.m, "bit": i})
			}
		}
		for l := 0; l < len(s.sig); l++ {
			n++
			if got, p := safeVerify(chain.Pub(s.k), msgs[s.m], s.sig[:l]); got || p != "" {
				c.fail("C19|single|truncated-signature-accepted", fmt.Sprintf("key %d message %d: signature truncated to %d bytes verifies=%v panic=%q", s.k, s.m, l, got, p), map[string]interface{}{"key": s.k, "msg": s.m, "len": l})
			}
		}
		n++
		if got, p := safeVerify(chain.Pub(s.k), msgs[s.m], append(append([]byte{}, s.sig...), 0)); got || p != "" {
			c.fail("C19|single|extended-signature-accepted", fmt.Sprintf("key %d message %d: signature with a trailing byte verifies=%v panic=%q", s.k, s.m, got, p), nil)
		}
	}
	c.count("single-key verifications", n)
}

func permutations(n int) [][]int {
	var out [][]int
	var rec func(cur []int, used []bool)
	rec = func(cur []int, used []bool) {
		if len(cur) == n {
			out = append(out, append([]int{}, cur...))
			return
		}
		for i := 0; i < n; i++ {
			if !used[i] {
				used[i] = true
				rec(append(cur, i), used)
				used[i] = false
			}
		}
	}
	rec(nil, make([]bool, n))
	return out
}

func (c *c19) multisig() {
	msg := []byte("multisig message")
	other := []byte("another message")
	inner := mustMulti(chain.Pub(8), chain.Pub(109))
	type comp struct {
		pk   crypto.PublicKey
		sign func(m []byte) []byte
	}
	single := func(k int) comp { return comp{chain.Pub(k), func(m []byte) []byte { return sigOf(k, m) }} }
	nestedC := comp{inner, func(m []byte) []byte { return multiSigBytes(sigOf(8, m), sigOf(109, m)) }}
	sets := map[string][]comp{
		"ed,ed,ed":       {single(5), single(6), single(7)},
		"ed,secp,ed":     {single(5), single(100), single(7)},
		"ed,nested,secp": {single(5), nestedC, single(101)},
		"ed,ed":          {single(5), single(6)},
		// a key listed more than once signs in each of its positions
		"ed,ed,first-key-again":     {single(5), single(6), single(5)},
		"nested,ed,same-nested-key": {nestedC, single(5), nestedC},
	}
	foreign := single(3)
	n := int64(0)
	var names []string
	for name := range sets {
		names = append(names, name)
	}
	sort.Strings(names)
	for _, name := range names {
		cs := sets[name]
		var pks []crypto.PublicKey
		for _, x := range cs {
			pks = append(pks, x.pk)
		}
		mk := mustMulti(pks...)
		nk := len(cs)
		// candidate component signatures: correct one per position, + foreign key, + other message
		good := make([][]byte, nk)
		for i, x := range cs {
			good[i] = x.sign(msg)
		}
		cands := [][]byte{}
		candDesc := []string{}
		for i := range cs {
			cands = append(cands, good[i])
			candDesc = append(candDesc, fmt.Sprintf("sig%d", i))
		}
		cands = append(cands, foreign.sign(msg), cs[0].sign(other), []byte{}, []byte{0})
		candDesc = append(candDesc, "foreign", "sig0(other msg)", "empty", "zero")
		// every list of length nk-1, nk, nk+1 over the candidates
		for _, L := range []int{nk - 1, nk, nk + 1} {
			idx := make([]int, L)
			var rec func(pos int)
			rec = func(pos int) {
				if pos == L {
					n++
					list := make([][]byte, L)
					var desc []string
					want := L == nk
					for i, ci := range idx {
						list[i] = cands[ci]
						desc = append(desc, candDesc[ci])
						// (a key listed twice: its signature is in place in either of its positions)
						if L == nk && ci != i && !(ci < nk && bytes.Equal(pks[ci].Bytes(), pks[i].Bytes())) {
							want = false
						}
					}
					// independent positional rule on the raw component list
					ind := L == nk
					if ind {
						for i := range list {
							if !independentVerify(pks[i], msg, list[i]) {
								ind = false
							}
						}
					}
					if ind != want {
						c.fail("C19|harness|oracles-disagree", fmt.Sprintf("%s %v: construction says %v, primitive rule says %v", name, desc, want, ind), nil)
					}
					got, p := safeVerify(mk, msg, multiSigBytes(list...))
					rep := map[string]interface{}{"keys": name, "signatures": desc}
					if p != "" {
						c.fail("C19|multisig|verify-panics", fmt.Sprintf("%s with signatures %v: VerifyBytes panicked: %s", name, desc, p), rep)
					} else if got != want {
						c.fail(fmt.Sprintf("C19|multisig|verify=%v-want=%v", got, want), fmt.Sprintf("%s with signatures %v verifies=%v, positional N-of-N rule says %v", name, desc, got, want), rep)
					}
					return
				}
				for ci := range cands {
					idx[pos] = ci
					rec(pos + 1)
				}
			}
			rec(0)
		}
		// garbage multisignature encodings never verify and never panic
		for _, g := range [][]byte{nil, {}, {0x00}, good[0], bytes.Repeat([]byte{0xff}, 40), multiSigBytes()} {
			n++
			if got, p := safeVerify(mk, msg, g); got || p != "" {
				c.fail("C19|multisig|garbage-accepted", fmt.Sprintf("%s: garbage multisignature %X verifies=%v panic=%q", name, g, got, p), nil)
			}
		}
		// builders: by index and by key, in every insertion order, must yield a verifying multisignature
		for _, order := range permutations(nk) {
			for _, mode := range []string{"AddSignatureByIndex", "AddSignature"} {
				n++
				var ms crypto.MultiSig = crypto.MultiSignature{}.NewMultiSignature()
				perr := ""
				func() {
					defer func() {
						if r := recover(); r != nil {
							perr = fmt.Sprint(r)
						}
					}()
					for _, i := range order {
						if mode == "AddSignatureByIndex" {
							ms = ms.AddSignatureByIndex(good[i], i)
						} else {
							var err error
							ms, err = ms.AddSignature(good[i], pks[i], pks)
							if err != nil {
								perr = err.Error()
								return
							}
						}
					}
				}()
				// The statement is about verification, not about the builders: whatever component list
				// the builder produced, VerifyBytes must agree with the positional N-of-N rule applied
				// to that decoded list. (Builder misbehaviour itself is recorded, not judged.)
				rep := map[string]interface{}{"keys": name, "builder": mode, "insertion_order": order}
				if perr != "" {
					c.note("builder " + mode + " fails for key set " + name + ": " + perr)
					continue
				}
				list := ms.Signatures()
				want := len(list) == nk
				if want {
					for i := range list {
						if !independentVerify(pks[i], msg, list[i]) {
							want = false
						}
					}
				}
				if !want {
					c.note(fmt.Sprintf("builder %s, insertion order %v: assembled list has %d of %d components in place", mode, order, len(list), nk))
				}
				if got, p := safeVerify(mk, msg, ms.Marshal()); got != want || p != "" {
					c.fail(fmt.Sprintf("C19|multisig|built|verify=%v-want=%v", got, want), fmt.Sprintf("%s: signatures added with %s in order %v give %d components; VerifyBytes=%v panic=%q, positional rule on the assembled list=%v", name, mode, order, len(list), got, p, want), rep)
				}
			}
		}
	}
	c.count("multisig verifications", n)
}

// ---------------------------------------------------------------------------------------------
// keybase operation sequences

type kbOp struct {
	kind string // importobj create update delete sign exportobj exportimport coinbase setcoinbase
	key  int    // key index for K1/K2 (5 or 6); -1 = the created key
	p1   string // passphrase used to open
	p2   string // new passphrase / encryption passphrase
	p3   string
}

func (o kbOp) String() string {
	return fmt.Sprintf("%s(key=%d,%q,%q,%q)", o.kind, o.key, o.p1, o.p2, o.p3)
}

const uniPass = "пароль✓"
const wsPass = " pw\n"

func kbAlphabet() []kbOp {
	long := strings.Repeat("L", 1024)
	return []kbOp{
		{kind: "importobj", key: 5, p1: "pw"}, {kind: "importobj", key: 5, p1: ""}, {kind: "importobj", key: 6, p1: uniPass}, {kind: "importobj", key: 6, p1: long},
		{kind: "create", key: -1, p1: "pw"},
		{kind: "update", key: 5, p1: "pw", p2: "new"}, {kind: "update", key: 5, p1: "", p2: uniPass}, {kind: "update", key: 5, p1: "bad", p2: "new"}, {kind: "update", key: 6, p1: uniPass, p2: ""},
		{kind: "delete", key: 5, p1: "pw"}, {kind: "delete", key: 5, p1: "new"}, {kind: "delete", key: 5, p1: "bad"}, {kind: "delete", key: 6, p1: uniPass}, {kind: "delete", key: -1, p1: "pw"},
		{kind: "sign", key: 5, p1: "pw"}, {kind: "sign", key: 5, p1: "new"}, {kind: "sign", key: 5, p1: "bad"}, {kind: "sign", key: 6, p1: long}, {kind: "sign", key: -1, p1: "pw"},
		{kind: "exportobj", key: 5, p1: "pw"}, {kind: "exportobj", key: 5, p1: ""}, {kind: "exportobj", key: 6, p1: "bad"},
		{kind: "exportimport", key: 5, p1: "pw", p2: "enc", p3: "enc"}, {kind: "exportimport", key: 5, p1: "pw", p2: "enc", p3: "bad"}, {kind: "exportimport", key: 5, p1: "bad", p2: "enc", p3: "enc"},
		{kind: "exportimport", key: 6, p1: uniPass, p2: uniPass, p3: uniPass},
		// an export under the empty passphrase opens with the empty passphrase and with no other
		{kind: "exportimport", key: 5, p1: "pw", p2: "", p3: ""}, {kind: "exportimport", key: 5, p1: "pw", p2: "", p3: "pw"},
		// the same wrong passphrase for opening and for the new armor
		{kind: "exportimport", key: 5, p1: "bad", p2: "bad", p3: "bad"},
		// passphrases that differ only by surrounding whitespace are different passphrases
		{kind: "importobj", key: 6, p1: wsPass}, {kind: "sign", key: 6, p1: wsPass}, {kind: "sign", key: 6, p1: "pw"}, {kind: "sign", key: 5, p1: "pw\n"},
		// the keybase's "coinbase" selection: choosing or reading it is not an operation on the stored
		// keys (index 33, 34: appended so that the index lists below stay valid)
		{kind: "coinbase"}, {kind: "setcoinbase", key: 5},
	}
}

type kbModel map[string]string // address hex -> current passphrase

func rawPriv(k int) [64]byte {
	var out [64]byte
	copy(out[:], chain.Key(k).RawBytes())
	return out
}

func listString(kb keys.Keybase) (string, []keys.KeyPair, error) {
	kps, err := kb.List()
	if err != nil {
		return "", nil, err
	}
	var parts []string
	for _, kp := range kps {
		parts = append(parts, kp.GetAddress().String()+"="+kp.PrivKeyArmor)
	}
	sort.Strings(parts)
	return strings.Join(parts, ";"), kps, nil
}

// runKbProgram executes prog on fresh keybases; returns failure description.
func (c *c19) runKbProgram(mk func() (keys.Keybase, func()), ops []kbOp, prog []int, backend string) {
	c.runKbProgramFrom(mk, ops, prog, backend, false)
}

// runKbProgramFrom optionally starts with key 5 already imported under "pw".
func (c *c19) runKbProgramFrom(mk func() (keys.Keybase, func()), ops []kbOp, prog []int, backend string, preimport bool) {
	kb1, cl1 := mk()
	kb2, cl2 := mk()
	defer cl1()
	defer cl2()
	m1, m2 := kbModel{}, kbModel{}
	if preimport {
		if _, err := kb1.ImportPrivateKeyObject(rawPriv(5), "pw"); err != nil {
			c.fail("C19|keybase|prelude-import", "prelude import failed: "+err.Error(), nil)
			return
		}
		m1[chain.Addr(5).String()] = "pw"
		backend += "(key 5 pre-imported under \"pw\")"
	}
	created := ""
	succ := 0
	var names []string
	for _, i := range prog {
		names = append(names, ops[i].String())
	}
	rep := map[string]interface{}{"backend": backend, "program": names}
	fail := func(sig, f string, a ...interface{}) {
		c.fail("C19|keybase|"+sig, fmt.Sprintf("%s keybase, program %v: ", backend, names)+fmt.Sprintf(f, a...), rep)
	}
	addrOf := func(o kbOp) (sdk.Address, string) {
		if o.key >= 0 {
			a := chain.Addr(o.key)
			return a, a.String()
		}
		if created == "" {
			return sdk.Address(bytes.Repeat([]byte{0xAB}, 20)), "" // nothing created yet: an unknown address
		}
		a, _ := sdk.AddressFromHex(created)
		return a, created
	}
	msg := []byte("keybase message")
	for step, i := range prog {
		o := ops[i]
		before1, _, _ := listString(kb1)
		before2, _, _ := listString(kb2)
		addr, ahex := addrOf(o)
		cur, exists := m1[ahex]
		okWant := false
		var err error
		switch o.kind {
		case "importobj":
			okWant = !exists
			_, err = kb1.ImportPrivateKeyObject(rawPriv(o.key), o.p1)
			if okWant {
				m1[ahex] = o.p1
			}
		case "create":
			okWant = true
			var kp keys.KeyPair
			kp, err = kb1.Create(o.p1)
			if err == nil {
				created = kp.GetAddress().String()
				m1[created] = o.p1
			}
		case "update":
			okWant = exists && cur == o.p1
			err = kb1.Update(addr, o.p1, o.p2)
			if okWant {
				m1[ahex] = o.p2
			}
		case "delete":
			okWant = exists && cur == o.p1
			err = kb1.Delete(addr, o.p1)
			if okWant {
				delete(m1, ahex)
			}
		case "sign":
			okWant = exists && cur == o.p1
			var sig []byte
			var pk crypto.PublicKey
			sig, pk, err = kb1.Sign(addr, o.p1, msg)
			if err == nil {
				if pk == nil || pk.Address().String() != strings.ToUpper(ahex) && !strings.EqualFold(sdk.Address(pk.Address()).String(), ahex) {
					fail("sign-wrong-key", "step %d %s: signed with a key whose address is not the requested one", step, o)
					return
				}
				if ok, p := safeVerify(pk, msg, sig); !ok || p != "" {
					fail("sign-does-not-verify", "step %d %s: signature does not verify under the returned key", step, o)
					return
				}
			}
		case "coinbase":
			// which key is reported is the keybase's business; the call must leave the stored keys alone
			_, err = kb1.GetCoinbase()
			okWant = err == nil
		case "setcoinbase":
			okWant = exists
			err = kb1.SetCoinbase(addr)
		case "exportobj":
			okWant = exists && cur == o.p1
			var pk crypto.PrivateKey
			pk, err = kb1.ExportPrivateKeyObject(addr, o.p1)
			if err == nil && o.key >= 0 && !bytes.Equal(pk.RawBytes(), chain.Key(o.key).RawBytes()) {
				fail("export-wrong-key", "step %d %s: exported key differs from the imported one", step, o)
				return
			}
		case "exportimport":
			// export from kb1 under p2, import into kb2 decrypting with p3, storing under "pw2"
			var armor string
			hint := "hint"
			if o.p1 == o.p2 {
				hint = "" // exports without a hint too
			}
			armor, err = kb1.ExportPrivKeyEncryptedArmor(addr, o.p1, o.p2, hint)
			okExport := exists && cur == o.p1
			if (err == nil) != okExport {
				fail(fmt.Sprintf("export-armor|ok=%v-want=%v", err == nil, okExport), "step %d %s: export returned err=%v, model expects success=%v", step, o, err, okExport)
				return
			}
			if err != nil {
				okWant = false
				break
			}
			_, exists2 := m2[ahex]
			okWant = o.p2 == o.p3 && !exists2
			var kp keys.KeyPair
			kp, err = kb2.ImportPrivKey(armor, o.p3, "pw2")
			if err == nil {
				if !strings.EqualFold(kp.GetAddress().String(), ahex) {
					fail("import-wrong-address", "step %d %s: imported key has address %s, exported %s", step, o, kp.GetAddress(), ahex)
					return
				}
				if o.key >= 0 {
					if pk, e2 := kb2.ExportPrivateKeyObject(kp.GetAddress(), "pw2"); e2 != nil || !bytes.Equal(pk.RawBytes(), chain.Key(o.key).RawBytes()) {
						fail("import-wrong-key", "step %d %s: key imported into the second keybase differs from the original (err=%v)", step, o, e2)
						return
					}
				}
			}
			if okWant {
				m2[ahex] = "pw2"
			}
		}
		if err == nil {
			succ++
		}
		if (err == nil) != okWant {
			fail(fmt.Sprintf("%s|ok=%v-want=%v", o.kind, err == nil, okWant), "step %d %s: returned err=%v, model expects success=%v (stored passphrase %q, exists=%v)", step, o, err, okWant, cur, exists)
			return
		}
		after1, kps1, e1 := listString(kb1)
		after2, _, e2 := listString(kb2)
		if e1 != nil || e2 != nil {
			fail("list-error", "step %d %s: List failed: %v %v", step, o, e1, e2)
			return
		}
		// a failed operation alters nothing
		if err != nil && (after1 != before1 || after2 != before2) {
			fail("failed-op-altered-store|"+o.kind, "step %d %s failed (%v) but the stored records changed", step, o, err)
			return
		}
		// List() == model
		var got, want []string
		for _, kp := range kps1 {
			got = append(got, strings.ToLower(kp.GetAddress().String()))
		}
		for a := range m1 {
			want = append(want, strings.ToLower(a))
		}
		sort.Strings(got)
		sort.Strings(want)
		if strings.Join(got, ",") != strings.Join(want, ",") {
			fail("list-differs-from-model|"+o.kind, "step %d %s: keybase lists %v, model %v", step, o, got, want)
			return
		}
		for _, kp := range kps1 {
			if g, e := kb1.Get(kp.GetAddress()); e != nil || g.PrivKeyArmor != kp.PrivKeyArmor {
				fail("get-differs-from-list", "step %d %s: Get(%s) err=%v", step, o, kp.GetAddress(), e)
				return
			}
		}
	}
	c.kbNote(len(prog), succ, m1, m2)
	// at the end: every stored key opens with its model passphrase and with no other
	for a, p := range m1 {
		addr, _ := sdk.AddressFromHex(a)
		if _, _, err := kb1.Sign(addr, p, msg); err != nil {
			fail("final-right-passphrase-rejected", "key %s does not open with its passphrase %q: %v", a, p, err)
			return
		}
		wrong := []string{p + "x", p + "\n", " " + p}
		if t := strings.TrimSpace(p); t != p {
			wrong = append(wrong, t)
		}
		for _, w := range wrong {
			if _, _, err := kb1.Sign(addr, w, msg); err == nil {
				fail("final-wrong-passphrase-accepted", "key %s (passphrase %q) opens with the wrong passphrase %q", a, p, w)
				return
			}
		}
	}
}

func (c *c19) keybase(tier string) {
	ops := kbAlphabet()
	L := 2
	if tier == "thorough" {
		L = 3
	}
	mem := func() (keys.Keybase, func()) { return keys.NewInMemory(), func() {} }
	var wg sync.WaitGroup
	sem := make(chan struct{}, runtime.NumCPU())
	var n int64
	prog := make([]int, L)
	var rec func(pos int)
	rec = func(pos int) {
		if pos == L {
			p := append([]int{}, prog...)
			n++
			wg.Add(1)
			sem <- struct{}{}
			go func() {
				defer wg.Done()
				defer func() { <-sem }()
				c.runKbProgram(mem, ops, p, "in-memory")
			}()
			return
		}
		for i := range ops {
			prog[pos] = i
			rec(pos + 1)
		}
	}
	rec(0)
	wg.Wait()
	c.count(fmt.Sprintf("keybase programs (in-memory, L=%d)", L), n)
	if L == 2 {
		// quick tier: all programs of length 3 over a reduced alphabet (one key, the passphrase life cycle)
		var small []int
		for i, o := range ops {
			if o.key == 5 && (o.kind == "importobj" && o.p1 == "pw" || o.kind == "update" && o.p1 != "" || o.kind == "delete" && o.p1 != "new" || o.kind == "sign" || o.kind == "exportobj" && o.p1 == "pw" || o.kind == "exportimport" && o.p3 == "enc" && o.p1 == "pw") || o.kind == "coinbase" {
				small = append(small, i)
			}
		}
		n = 0
		for _, a := range small {
			for _, b := range small {
				for _, cc := range small {
					n++
					wg.Add(1)
					sem <- struct{}{}
					go func(a, b, cc int) {
						defer wg.Done()
						defer func() { <-sem }()
						c.runKbProgramFrom(mem, ops, []int{a, b, cc}, "in-memory", true)
					}(a, b, cc)
				}
			}
		}
		wg.Wait()
		c.count("keybase programs (in-memory, L=3, reduced alphabet)", n)
	}
	// the lazy, directory-backed keybase: a reduced alphabet, programs of length 2
	dirRoot := filepath.Join(ev.Root, ".work", fmt.Sprintf("kb-%d", os.Getpid()))
	os.MkdirAll(dirRoot, 0o755)
	defer os.RemoveAll(dirRoot)
	var seq int64
	var smu sync.Mutex
	lazy := func() (keys.Keybase, func()) {
		smu.Lock()
		seq++
		d := filepath.Join(dirRoot, fmt.Sprintf("%d", seq))
		smu.Unlock()
		return keys.New("kb", d), func() { os.RemoveAll(d) }
	}
	small := []int{0, 4, 5, 7, 9, 11, 14, 16, 19, 22, 23, 33}
	n = 0
	for _, a := range small {
		for _, b := range small {
			n++
			wg.Add(1)
			sem <- struct{}{}
			go func(a, b int) {
				defer wg.Done()
				defer func() { <-sem }()
				c.runKbProgram(lazy, ops, []int{a, b}, "lazy")
			}(a, b)
		}
	}
	wg.Wait()
	c.count("keybase programs (lazy, L=2)", n)
	c.secpLifeCycle(mem, "in-memory")
	c.secpLifeCycle(lazy, "lazy")
}

// secpLifeCycle: a secp256k1 key can only enter a keybase as an armored export (Create and
// ImportPrivateKeyObject make ed25519 keys). The whole life cycle with such a key: import the armor,
// list, sign (the signature verifies under the secp256k1 public key), re-encrypt, export both ways,
// import the export into a second keybase, wrong passphrases everywhere, delete.
func (c *c19) secpLifeCycle(mk func() (keys.Keybase, func()), backend string) {
	fail := func(sig, f string, a ...interface{}) {
		c.fail("C19|keybase|secp256k1|"+sig, backend+" keybase, secp256k1 key: "+fmt.Sprintf(f, a...), map[string]interface{}{"backend": backend})
	}
	priv := chain.Key(100)
	addr := chain.Addr(100)
	msg := []byte("keybase message")
	armor, err := mintkey.EncryptArmorPrivKey(priv, "enc", "hint")
	if err != nil {
		fail("armor", "cannot armor the key: %v", err)
		return
	}
	kb, cl := mk()
	defer cl()
	kb2, cl2 := mk()
	defer cl2()
	var perr string
	func() {
		defer func() {
			if r := recover(); r != nil {
				perr = fmt.Sprint(r)
			}
		}()
		if _, err := kb.ImportPrivKey(armor, "bad", "pw"); err == nil {
			fail("import-wrong-passphrase-accepted", "ImportPrivKey opened the armor with a wrong passphrase")
			return
		}
		if l, _ := kb.List(); len(l) != 0 {
			fail("failed-import-stored-a-key", "a refused import left %d keys", len(l))
			return
		}
		kp, err := kb.ImportPrivKey(armor, "enc", "pw")
		if err != nil {
			fail("import-fails", "ImportPrivKey of an armored secp256k1 key fails: %v", err)
			return
		}
		if !bytes.Equal(kp.GetAddress(), addr) || !bytes.Equal(kp.PublicKey.RawBytes(), chain.Pub(100).RawBytes()) {
			fail("import-wrong-key", "imported key pair has address %s / another public key, want %s", kp.GetAddress(), addr)
			return
		}
		if l, err := kb.List(); err != nil || len(l) != 1 || !bytes.Equal(l[0].GetAddress(), addr) {
			fail("list", "List after the import: %v %v", l, err)
			return
		}
		if _, _, err := kb.Sign(addr, "bad", msg); err == nil {
			fail("sign-wrong-passphrase-accepted", "Sign accepted a wrong passphrase")
			return
		}
		sig, pk, err := kb.Sign(addr, "pw", msg)
		if err != nil || pk == nil || !independentVerify(chain.Pub(100), msg, sig) || !bytes.Equal(pk.RawBytes(), chain.Pub(100).RawBytes()) {
			fail("sign", "Sign: err=%v, signature verifies under the secp256k1 key: %v", err, err == nil && independentVerify(chain.Pub(100), msg, sig))
			return
		}
		if err := kb.Update(addr, "bad", "new"); err == nil {
			fail("update-wrong-passphrase-accepted", "Update accepted a wrong passphrase")
			return
		}
		if err := kb.Update(addr, "pw", "new"); err != nil {
			fail("update-fails", "Update fails: %v", err)
			return
		}
		if _, _, err := kb.Sign(addr, "pw", msg); err == nil {
			fail("old-passphrase-still-opens", "the old passphrase still signs after Update")
			return
		}
		obj, err := kb.ExportPrivateKeyObject(addr, "new")
		if err != nil || !bytes.Equal(obj.RawBytes(), priv.RawBytes()) {
			fail("export-object", "ExportPrivateKeyObject: err=%v, same key=%v", err, err == nil && bytes.Equal(obj.RawBytes(), priv.RawBytes()))
			return
		}
		if _, err := kb.ExportPrivKeyEncryptedArmor(addr, "bad", "x", ""); err == nil {
			fail("export-wrong-passphrase-accepted", "ExportPrivKeyEncryptedArmor accepted a wrong passphrase")
			return
		}
		exp, err := kb.ExportPrivKeyEncryptedArmor(addr, "new", "enc2", "h")
		if err != nil {
			fail("export-armor", "ExportPrivKeyEncryptedArmor fails: %v", err)
			return
		}
		kp2, err := kb2.ImportPrivKey(exp, "enc2", "pw2")
		if err != nil || !bytes.Equal(kp2.GetAddress(), addr) {
			fail("reimport", "importing the export into a second keybase: err=%v address=%s", err, kp2.GetAddress())
			return
		}
		if o2, err := kb2.ExportPrivateKeyObject(addr, "pw2"); err != nil || !bytes.Equal(o2.RawBytes(), priv.RawBytes()) {
			fail("reimport-wrong-key", "the re-imported key differs from the original (err=%v)", err)
			return
		}
		if err := kb.Delete(addr, "bad"); err == nil {
			fail("delete-wrong-passphrase-accepted", "Delete accepted a wrong passphrase")
			return
		}
		if l, _ := kb.List(); len(l) != 1 {
			fail("refused-delete-removed-the-key", "a refused Delete left %d keys", len(l))
			return
		}
		if err := kb.Delete(addr, "new"); err != nil {
			fail("delete-fails", "Delete fails: %v", err)
			return
		}
		if l, _ := kb.List(); len(l) != 0 {
			fail("delete-left-the-key", "%d keys after Delete", len(l))
		}
	}()
	if perr != "" {
		fail("panic", "an operation panicked: %.200s", perr)
	}
	c.count("keybase life cycle of a secp256k1 key ("+backend+")", 1)
}

// C19 entry point.
// rawKeys: private keys of both types given by their raw bytes (among them secp256k1 scalars with
// leading zero bytes and the smallest scalar) survive the raw-bytes decoder and the encrypted armor:
// same bytes, same public key and address, and a signature by the decoded key verifies under the
// original public key.
func (c *c19) rawKeys() {
	seq := func(start byte, n int) []byte {
		b := make([]byte, n)
		for i := range b {
			b[i] = start + byte(i)
		}
		return b
	}
	one := make([]byte, 32)
	one[31] = 1
	lead2 := append([]byte{0, 0}, seq(7, 30)...)
	var ks []crypto.PrivateKey
	for _, raw := range [][]byte{seq(0, 32), one, lead2, seq(1, 32), bytes.Repeat([]byte{0x7f}, 32)} {
		var a [32]byte
		copy(a[:], raw)
		ks = append(ks, crypto.Secp256k1PrivateKey(a))
	}
	ks = append(ks, chain.Key(100), chain.Key(101), chain.Key(0), chain.Key(1))
	msg := []byte("raw key round trip")
	n := int64(0)
	for i, k := range ks {
		rep := map[string]interface{}{"key": i, "raw": fmt.Sprintf("%X", k.RawBytes())}
		n++
		k2, err := crypto.NewPrivateKeyBz(k.RawBytes())
		if err != nil || !bytes.Equal(k2.RawBytes(), k.RawBytes()) || !bytes.Equal(k2.PublicKey().RawBytes(), k.PublicKey().RawBytes()) {
			c.fail("C19|rawkey|decode-changes-key", fmt.Sprintf("key %d (%X): NewPrivateKeyBz(RawBytes()) gives another key (err %v)", i, k.RawBytes(), err), rep)
			continue
		}
		if sig, err := k2.Sign(msg); err != nil || !k.PublicKey().VerifyBytes(msg, sig) {
			c.fail("C19|rawkey|decoded-key-signature-does-not-verify", fmt.Sprintf("key %d: a signature by the decoded key does not verify under the original public key", i), rep)
		}
		n++
		armor, err := mintkey.EncryptArmorPrivKey(k, "pw", "")
		if err != nil {
			c.fail("C19|rawkey|armor-error", fmt.Sprintf("key %d: %v", i, err), rep)
			continue
		}
		k3, err := mintkey.UnarmorDecryptPrivKey(armor, "pw")
		if err != nil || !bytes.Equal(k3.RawBytes(), k.RawBytes()) || !bytes.Equal(k3.PublicKey().Address(), k.PublicKey().Address()) {
			c.fail("C19|rawkey|armor-roundtrip-changes-key", fmt.Sprintf("key %d (%X): armor round trip under the right passphrase gives another key / address (err %v)", i, k.RawBytes(), err), rep)
		}
		if _, err := mintkey.UnarmorDecryptPrivKey(armor, "pw "); err == nil {
			c.fail("C19|rawkey|armor-opens-with-wrong-passphrase", fmt.Sprintf("key %d: the armor opens with a wrong passphrase", i), rep)
		}
	}
	c.count("raw key round trips", n)
}

func C19(tier string) int {
	run := ev.NewRun("C19", tier, "model_checking")
	c := &c19{run: run, kinds: map[string]int64{}}
	c.singleKeys()
	c.multisig()
	// the key store prints decryption failures to standard output: silence it while it is exercised
	saved := os.Stdout
	if devnull, err := os.OpenFile(os.DevNull, os.O_WRONLY, 0); err == nil {
		os.Stdout = devnull
		c.rawKeys()
		c.keybase(tier)
		os.Stdout = saved
		devnull.Close()
	} else {
		c.rawKeys()
		c.keybase(tier)
	}
	run.Set("evaluations", c.eval)
	progs := c.kinds["keybase programs (in-memory, L=2)"] + c.kinds["keybase programs (in-memory, L=3)"] + c.kinds["keybase programs (in-memory, L=3, reduced alphabet)"] + c.kinds["keybase programs (lazy, L=2)"]
	run.Set("states", int64(len(c.kbStates)))
	run.Set("transitions", c.kbOps)
	run.Set("traces_validated_against_impl", progs)
	run.Set("distinct_nontrivial", c.kbNontriv)
	run.Set("keybase_programs", progs)
	run.Set("by_part", c.kinds)
	run.Set("observations_not_judged", c.notes)
	run.Set("rule", "single keys: 2 ed25519 + 2 secp256k1 keys x 5 messages, every (key,message) signed, every (key,message,signature) triple verified, every single-bit flip / truncation / extension of every valid signature; multisig: 4 key sets (mixed types, nested), every component list of length n-1, n, n+1 over {correct component per position, foreign key, other message, empty, zero}, garbage encodings, builders by index and by key in every insertion order; raw keys: 9 private keys incl. secp256k1 scalars with leading zero bytes through the raw-bytes decoder and the encrypted armor; keybase: every program of L operations over 30 operations (import, create, update, delete, sign, export object, export+import into a second keybase; right/wrong/empty/unicode/1 KiB passphrases) on the in-memory keybase, and a reduced alphabet on the directory-backed lazy keybase, against a map model address -> passphrase. evaluations = verifications + keybase programs; states = distinct final states of the keybase model (which address is stored under which passphrase, in both keybases) reached by the programs; transitions = keybase operations executed; traces_validated_against_impl = keybase programs (every one runs on the real keybase); distinct_nontrivial = keybase programs (distinct by construction) in which at least one operation succeeded and at least one was refused")
	run.Sample(map[string]interface{}{"part": "multisig", "keys": "ed,nested,secp", "signatures": []string{"sig0", "foreign", "sig2"}, "oracle": "positional N-of-N rule with Tendermint primitives"})
	run.Sample(map[string]interface{}{"part": "keybase", "program": []string{"importobj(key=5,\"pw\")", "update(key=5,\"bad\",\"new\")", "sign(key=5,\"pw\")"}})
	run.Assume("Tendermint's ed25519/secp256k1 primitives are the trusted oracle for component signatures", "scrypt/AES-GCM are not re-verified; only the observable behaviour (opens with the right passphrase, not with another one) is checked")
	return run.Finish()
}

func init() { Registry["C19"] = C19 }
