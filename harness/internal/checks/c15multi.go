package checks

// C15 (cache multistore): the single-store programs lifted to two substores behind a
// cachemulti.Store (and a nested one): reads see the overlay, parents are unchanged until Write,
// one Write applies both substores, a discarded branch leaves no effect.

import (
	"bytes"
	"fmt"

	"github.com/pokt-network/posmint/store/cachemulti"
	"github.com/pokt-network/posmint/store/dbadapter"
	stypes "github.com/pokt-network/posmint/store/types"
	dbm "github.com/tendermint/tm-db"
)

type mop struct {
	kind  string // get set del iter write push popw popd
	store int
	key   []byte
	val   []byte
}

func (o mop) String() string {
	switch o.kind {
	case "get", "del":
		return fmt.Sprintf("%s(s%d,%q)", o.kind, o.store, o.key)
	case "set":
		return fmt.Sprintf("set(s%d,%q,%q)", o.store, o.key, o.val)
	case "iter":
		return fmt.Sprintf("iter(s%d)", o.store)
	}
	return o.kind
}

func c15multiAlphabet() []mop {
	var ops []mop
	for st := 0; st < 2; st++ {
		for _, k := range [][]byte{kA, kB} {
			ops = append(ops, mop{kind: "get", store: st, key: k}, mop{kind: "set", store: st, key: k, val: []byte("x")}, mop{kind: "del", store: st, key: k})
		}
		ops = append(ops, mop{kind: "iter", store: st})
	}
	ops = append(ops, mop{kind: "set", store: 0, key: kA, val: []byte("y")})
	ops = append(ops, mop{kind: "write"}, mop{kind: "push"}, mop{kind: "popw"}, mop{kind: "popd"})
	return ops
}

// runC15multi executes one program; returns failure text, and whether the program respects the contracts.
func runC15multi(alpha []mop, prog []int) (fail string, ran bool) {
	defer func() {
		if r := recover(); r != nil {
			fail = fmt.Sprintf("panic: %v", r)
		}
	}()
	keys := []stypes.StoreKey{stypes.NewKVStoreKey("s0"), stypes.NewKVStoreKey("s1")}
	parents := []dbadapter.Store{{DB: dbm.NewMemDB()}, {DB: dbm.NewMemDB()}}
	base := []kvMap{{}, {}}
	for i := range parents {
		parents[i].Set(kA, []byte("pa"))
		base[i]["a"] = []byte("pa")
	}
	wrappers := map[stypes.StoreKey]stypes.CacheWrapper{keys[0]: parents[0], keys[1]: parents[1]}
	byName := map[string]stypes.StoreKey{"s0": keys[0], "s1": keys[1]}
	root := cachemulti.NewStore(dbm.NewMemDB(), wrappers, byName, nil, nil)
	stack := []stypes.CacheMultiStore{root}
	levels := [][]level{{{}, {}}}
	view := func(t, st int) kvMap {
		out := base[st].clone()
		for i := 0; i <= t; i++ {
			for k, v := range levels[i][st] {
				if v == nil {
					delete(out, k)
				} else {
					out[k] = v
				}
			}
		}
		return out
	}
	flush := func(t int) {
		for st := 0; st < 2; st++ {
			for k, v := range levels[t][st] {
				if t == 0 {
					if v == nil {
						delete(base[st], k)
					} else {
						base[st][k] = v
					}
				} else {
					levels[t-1][st][k] = v
				}
			}
			levels[t][st] = level{}
		}
	}
	for _, i := range prog {
		o := alpha[i]
		t := len(stack) - 1
		switch o.kind {
		case "popw", "popd":
			if t == 0 {
				return "", false
			}
		case "push":
			if t >= 2 {
				return "", false
			}
		}
		switch o.kind {
		case "get":
			got := stack[t].GetKVStore(keys[o.store]).Get(o.key)
			want := view(t, o.store)[string(o.key)]
			if !bytes.Equal(got, want) || (got == nil) != (want == nil) {
				return fmt.Sprintf("%s = %q, model %q", o, got, want), true
			}
		case "set":
			stack[t].GetKVStore(keys[o.store]).Set(o.key, append([]byte{}, o.val...))
			levels[t][o.store][string(o.key)] = append([]byte{}, o.val...)
		case "del":
			stack[t].GetKVStore(keys[o.store]).Delete(o.key)
			levels[t][o.store][string(o.key)] = nil
		case "iter":
			got, e := drain(stack[t].GetKVStore(keys[o.store]).Iterator(nil, nil), 64)
			if e != "" {
				return o.String() + ": " + e, true
			}
			if want := view(t, o.store).iterate(nil, nil, true); !pairsEqual(got, want) {
				return fmt.Sprintf("%s = [%s], model [%s]", o, pairsString(got), pairsString(want)), true
			}
		case "write":
			stack[t].Write()
			flush(t)
		case "push":
			stack = append(stack, stack[t].CacheMultiStore())
			levels = append(levels, []level{{}, {}})
		case "popw":
			stack[t].Write()
			flush(t)
			stack, levels = stack[:t], levels[:t]
		case "popd":
			stack, levels = stack[:t], levels[:t]
		}
		// the real parents hold exactly the model's base content after every operation
		for st := 0; st < 2; st++ {
			if pd := dumpStore(parents[st]); !pairsEqual(pd, base[st].iterate(nil, nil, true)) {
				return fmt.Sprintf("after %s parent s%d holds [%s], model [%s]", o, st, pairsString(pd), pairsString(base[st].iterate(nil, nil, true))), true
			}
		}
	}
	// final: every level of every substore reads like its model view
	for t := len(stack) - 1; t >= 0; t-- {
		for st := 0; st < 2; st++ {
			got, e := drain(stack[t].GetKVStore(keys[st]).Iterator(nil, nil), 64)
			if e != "" {
				return "final iteration: " + e, true
			}
			if want := view(t, st).iterate(nil, nil, true); !pairsEqual(got, want) {
				return fmt.Sprintf("final: level %d store s%d iterates [%s], model [%s]", t, st, pairsString(got), pairsString(want)), true
			}
		}
	}
	return "", true
}

func exploreC15multi(L int, onFail func(prog []string, what string)) (programs int64) {
	alpha := c15multiAlphabet()
	prog := make([]int, L)
	var rec func(pos int)
	rec = func(pos int) {
		if pos == L {
			what, ran := runC15multi(alpha, prog)
			if ran {
				programs++
			}
			if what != "" {
				var names []string
				for _, i := range prog {
					names = append(names, alpha[i].String())
				}
				onFail(names, what)
			}
			return
		}
		for a := range alpha {
			prog[pos] = a
			rec(pos + 1)
		}
	}
	rec(0)
	return
}
