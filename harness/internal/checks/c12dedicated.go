package checks

// C12, dedicated-database pass: substores mounted with MountStoreWithDB(key, typ, db) with db != nil
// live in their own database (prefix "s/_/") while the commit info stays in the root database. Every
// write history is committed version by version; after every commit the whole set of databases is
// copied and reopened, at the latest version and at every version 1..latest+1.

import (
	"bytes"
	"fmt"

	"github.com/pokt-network/posmint/store/rootmulti"
	stypes "github.com/pokt-network/posmint/store/types"
	dbm "github.com/tendermint/tm-db"

	"verif/internal/crashdb"
)

// rmOpenDBs mounts N IAVL stores, store i on own[i] when it is not nil and on the root database
// otherwise, plus one transient store, and loads version ver (-1 = latest).
func rmOpenDBs(root dbm.DB, own []dbm.DB, n int, pruning [2]int64, ver int64, lazy bool) (*rmStore, error) {
	s := &rmStore{rs: rootmulti.NewStore(root)}
	s.rs.SetPruning(stypes.NewPruningOptions(pruning[0], pruning[1]))
	s.rs.SetLazyLoading(lazy)
	for i := 0; i < n; i++ {
		k := stypes.NewKVStoreKey(rmName(i))
		s.keys = append(s.keys, k)
		if own[i] != nil {
			s.rs.MountStoreWithDB(k, stypes.StoreTypeIAVL, own[i])
		} else {
			s.rs.MountStoreWithDB(k, stypes.StoreTypeIAVL, nil)
		}
	}
	s.tkey = stypes.NewTransientStoreKey("t")
	s.rs.MountStoreWithDB(s.tkey, stypes.StoreTypeTransient, nil)
	var err error
	func() {
		defer func() {
			if r := recover(); r != nil {
				err = fmt.Errorf("panic: %v", r)
			}
		}()
		if ver < 0 {
			err = s.rs.LoadLatestVersion()
		} else {
			err = s.rs.LoadVersion(ver)
		}
	}()
	if err != nil {
		return nil, err
	}
	return s, nil
}

// probeGets reads the keys of the alphabet with Get (a damaged tree panics in the calling goroutine,
// where it is recovered and reported; a full iteration would panic in the iterator's goroutine).
func probeGets(st stypes.KVStore, m kvMap) string {
	for _, k := range [][]byte{rmK1, rmK2} {
		got := st.Get(k)
		want, ok := m[string(k)]
		if (got != nil) != ok || !bytes.Equal(got, want) {
			return fmt.Sprintf("Get(%s) = %q (present=%v), committed %q (present=%v)", k, got, got != nil, want, ok)
		}
	}
	return ""
}

// runC12Dedicated: h.Dedicated is a bit mask, bit i = store i has its own database.
func runC12Dedicated(h rmHist) (res *c12result, opens int64, loads int64) {
	defer func() {
		if r := recover(); r != nil {
			res = &c12result{fmt.Sprintf("C12|dedicated-db|panic|pruning=(%d,%d)", h.Pruning[0], h.Pruning[1]), h.String() + ": " + fmt.Sprintf("panic: %.300v", r)}
		}
	}()
	fail := func(sig, f string, a ...interface{}) (*c12result, int64, int64) {
		return &c12result{fmt.Sprintf("C12|dedicated-db|%s|pruning=(%d,%d)", sig, h.Pruning[0], h.Pruning[1]), h.String() + ": " + fmt.Sprintf(f, a...)}, opens, loads
	}
	root := crashdb.New()
	own := make([]*crashdb.DB, h.N)
	asDBs := func(r *crashdb.DB, o []*crashdb.DB) (dbm.DB, []dbm.DB) {
		out := make([]dbm.DB, len(o))
		for i, d := range o {
			if d != nil {
				out[i] = d
			}
		}
		return r, out
	}
	for i := 0; i < h.N; i++ {
		if h.Dedicated&(1<<uint(i)) != 0 {
			own[i] = crashdb.New()
		}
	}
	copies := func() (dbm.DB, []dbm.DB) {
		o := make([]*crashdb.DB, h.N)
		for i, d := range own {
			if d != nil {
				o[i] = crashdb.FromSnapshot(d.Snapshot(), nil)
			}
		}
		return asDBs(crashdb.FromSnapshot(root.Snapshot(), nil), o)
	}
	r0, o0 := asDBs(root, own)
	s, err := rmOpenDBs(r0, o0, h.N, h.Pruning, -1, false)
	if err != nil {
		return fail("open-fresh", "cannot open fresh store: %v", err)
	}
	models := make([]kvMap, h.N)
	for i := range models {
		models[i] = kvMap{}
	}
	snaps := map[int64][]kvMap{}
	hashes := map[int64][]byte{}
	for vi, cs := range h.Choice {
		v := int64(vi + 1)
		if h.Reopen == 1 || h.Reopen == 2 {
			// the process restarts before every commit: a fresh multistore over the same databases
			opens++
			s, err = rmOpenDBs(r0, o0, h.N, h.Pruning, -1, h.Reopen == 2)
			if err != nil {
				return fail("reopen-live-fails", "before the writes of version %d a fresh multistore over the same databases failed to load: %v", v, err)
			}
		}
		for i, c := range cs {
			rmApplyChoice(s.kv(i), models[i], c)
		}
		cid := s.rs.Commit()
		if cid.Version != v {
			return fail("commit-version", "commit %d returned version %d", v, cid.Version)
		}
		snap := make([]kvMap, h.N)
		for i := range models {
			snap[i] = models[i].clone()
		}
		snaps[v] = snap
		hashes[v] = cid.Hash
		opens++
		cr, co := copies()
		s2, err := rmOpenDBs(cr, co, h.N, h.Pruning, -1, false)
		if err != nil {
			return fail("reopen-latest-fails", "after commit %d LoadLatestVersion on reopened databases failed: %v", v, err)
		}
		if lc := s2.rs.LastCommitID(); lc.Version != v || !bytes.Equal(lc.Hash, cid.Hash) {
			return fail("reopen-commit-id", "after commit %d a reopened store reports %d/%X, commit returned %d/%X", v, lc.Version, lc.Hash, v, cid.Hash)
		}
		for i := 0; i < h.N; i++ {
			if d := probeGets(s2.kv(i), snap[i]); d != "" {
				return fail("reopen-content", "after commit %d reopened store %s: %s", v, rmName(i), d)
			}
		}
		for i := 0; i < h.N; i++ {
			if got, want := s2.content(i), snap[i].iterate(nil, nil, true); !pairsEqual(got, want) {
				return fail("reopen-content", "after commit %d reopened store %s holds [%s], committed [%s]", v, rmName(i), pairsString(got), pairsString(want))
			}
		}
		for u := int64(1); u <= v+1; u++ {
			loads++
			cr, co := copies()
			s3, err := rmOpenDBs(cr, co, h.N, h.Pruning, u, false)
			if rmRetained(u, v, h.Pruning) {
				if err != nil {
					return fail("retained-version-unreadable", "after commit %d version %d is retained by the policy but LoadVersion failed: %v", v, u, err)
				}
				if lc := s3.rs.LastCommitID(); lc.Version != u || !bytes.Equal(lc.Hash, hashes[u]) {
					return fail("loaded-commit-id", "after commit %d LoadVersion(%d) reports %d/%X, committed hash %X", v, u, lc.Version, lc.Hash, hashes[u])
				}
				for i := 0; i < h.N; i++ {
					if d := probeGets(s3.kv(i), snaps[u][i]); d != "" {
						return fail("loaded-content", "after commit %d LoadVersion(%d) store %s: %s", v, u, rmName(i), d)
					}
				}
				for i := 0; i < h.N; i++ {
					if got, want := s3.content(i), snaps[u][i].iterate(nil, nil, true); !pairsEqual(got, want) {
						return fail("loaded-content", "after commit %d LoadVersion(%d) store %s holds [%s], committed at %d [%s]", v, u, rmName(i), pairsString(got), u, pairsString(want))
					}
				}
			} else if err == nil && h.Reopen == 2 && u <= v {
				// (a lazily loaded tree does not release versions it has not loaded - the same reading as
				// in the settings phase; what such a version serves must still be what was committed)
				for i := 0; i < h.N; i++ {
					if got, want := s3.content(i), snaps[u][i].iterate(nil, nil, true); !pairsEqual(got, want) {
						return fail("unreleased-version-wrong-content", "after commit %d LoadVersion(%d) (not released by the lazily loaded store) store %s holds [%s], committed at %d [%s]", v, u, rmName(i), pairsString(got), u, pairsString(want))
					}
				}
			} else if err == nil {
				var parts []string
				for i := 0; i < h.N; i++ {
					parts = append(parts, pairsString(s3.content(i)))
				}
				kind := "pruned"
				if u > v {
					kind = "future"
				}
				return fail(kind+"-version-readable", "after commit %d LoadVersion(%d) (%s) succeeded and serves %v", v, u, kind, parts)
			}
		}
	}
	return nil, opens, loads
}
