package checks

// C20 — encodings round-trip, sign bytes are canonical, malformed input is refused.
// Exhaustive catalogues of wire/storage values, all pairs for sign-byte injectivity, and every
// truncation and single-byte substitution of every catalogue encoding offered to the decoders
// (and to CheckTx/DeliverTx of a live application).

import (
	"bytes"
	"encoding/json"
	"fmt"
	"math/big"
	"reflect"
	"runtime"
	"sort"
	"strings"
	"sync"
	"time"

	"github.com/pokt-network/posmint/crypto"
	sdk "github.com/pokt-network/posmint/types"
	"github.com/pokt-network/posmint/x/auth"
	authExported "github.com/pokt-network/posmint/x/auth/exported"
	authTypes "github.com/pokt-network/posmint/x/auth/types"
	govTypes "github.com/pokt-network/posmint/x/gov/types"
	posTypes "github.com/pokt-network/posmint/x/pos/types"
	abci "github.com/tendermint/tendermint/abci/types"

	"verif/internal/chain"
	"verif/internal/ev"
)

type c20 struct {
	run   *ev.Run
	mu    sync.Mutex
	eval  int64
	kinds map[string]int64
}

func (c *c20) fail(sig, what string, rep interface{}) {
	c.mu.Lock()
	c.run.Report(sig, what, rep)
	c.mu.Unlock()
}
func (c *c20) count(k string, n int64) { c.mu.Lock(); c.eval += n; c.kinds[k] += n; c.mu.Unlock() }

type catItem struct {
	name string
	val  interface{} // a value (not pointer) of a concrete type, or an interface-typed holder via iface
	// iface: when non-nil, encode/decode through this interface type (pointer to nil interface value)
	iface interface{}
}

func maxInt() sdk.Int {
	return sdk.NewIntFromBigInt(new(big.Int).Sub(new(big.Int).Lsh(big.NewInt(1), 255), big.NewInt(1)))
}

func c20msgs() []catItem {
	a20 := chain.Addr(2)
	var items []catItem
	add := func(n string, m sdk.Msg) { items = append(items, catItem{name: n, val: m, iface: (*sdk.Msg)(nil)}) }
	for _, amt := range []sdk.Int{sdk.ZeroInt(), sdk.OneInt(), sdk.NewInt(1000), maxInt(), sdk.NewInt(-5)} {
		add("MsgSend/"+amt.String(), posTypes.MsgSend{FromAddress: a20, ToAddress: chain.Addr(3), Amount: amt})
		add("MsgStake/ed/"+amt.String(), posTypes.MsgStake{PubKey: chain.Pub(2), Value: amt})
		add("MsgDAOTransfer/"+amt.String(), govTypes.MsgDAOTransfer{FromAddress: a20, ToAddress: chain.Addr(3), Amount: amt, Action: govTypes.DAOTransferString})
	}
	add("MsgSend/empty-to", posTypes.MsgSend{FromAddress: a20, ToAddress: sdk.Address{}, Amount: sdk.OneInt()})
	add("MsgStake/secp", posTypes.MsgStake{PubKey: chain.Pub(100), Value: sdk.NewInt(5)})
	add("MsgStake/multisig", posTypes.MsgStake{PubKey: mustMulti(chain.Pub(5), chain.Pub(106)).(crypto.PublicKeyMultiSignature), Value: sdk.NewInt(5)})
	add("MsgBeginUnstake", posTypes.MsgBeginUnstake{Address: a20})
	add("MsgBeginUnstake/empty", posTypes.MsgBeginUnstake{Address: sdk.Address{}})
	add("MsgUnjail", posTypes.MsgUnjail{ValidatorAddr: a20})
	add("MsgChangeParam", govTypes.MsgChangeParam{FromAddress: a20, ParamKey: "pos/StakeMinimum", ParamVal: []byte(`"17"`)})
	add("MsgChangeParam/empty-val", govTypes.MsgChangeParam{FromAddress: a20, ParamKey: "k", ParamVal: []byte{}})
	add("MsgChangeParam/long", govTypes.MsgChangeParam{FromAddress: a20, ParamKey: strings.Repeat("k", 300), ParamVal: bytes.Repeat([]byte{0xff}, 300)})
	add("MsgDAOBurn", govTypes.MsgDAOTransfer{FromAddress: a20, Amount: sdk.NewInt(3), Action: govTypes.DAOBurnString})
	add("MsgUpgrade", govTypes.MsgUpgrade{Address: a20, Upgrade: govTypes.NewUpgrade(100, "1.2.3")})
	add("MsgUpgrade/zero", govTypes.MsgUpgrade{Address: a20, Upgrade: govTypes.NewUpgrade(0, "")})
	// twins that differ from a message above in exactly one address field (sign bytes must tell them apart)
	b20, z20 := chain.Addr(7), sdk.Address(make([]byte, 20))
	add("MsgUpgrade/other-sender", govTypes.MsgUpgrade{Address: b20, Upgrade: govTypes.NewUpgrade(100, "1.2.3")})
	add("MsgDAOBurn/with-recipient", govTypes.MsgDAOTransfer{FromAddress: a20, ToAddress: chain.Addr(3), Amount: sdk.NewInt(3), Action: govTypes.DAOBurnString})
	add("MsgDAOBurn/other-recipient", govTypes.MsgDAOTransfer{FromAddress: a20, ToAddress: b20, Amount: sdk.NewInt(3), Action: govTypes.DAOBurnString})
	add("MsgDAOBurn/other-sender", govTypes.MsgDAOTransfer{FromAddress: b20, Amount: sdk.NewInt(3), Action: govTypes.DAOBurnString})
	add("MsgSend/other-to", posTypes.MsgSend{FromAddress: a20, ToAddress: b20, Amount: sdk.OneInt()})
	add("MsgSend/zero-address-to", posTypes.MsgSend{FromAddress: a20, ToAddress: z20, Amount: sdk.OneInt()})
	add("MsgBeginUnstake/other", posTypes.MsgBeginUnstake{Address: b20})
	add("MsgBeginUnstake/zero-address", posTypes.MsgBeginUnstake{Address: z20})
	add("MsgUnjail/other", posTypes.MsgUnjail{ValidatorAddr: b20})
	add("MsgChangeParam/other-sender", govTypes.MsgChangeParam{FromAddress: b20, ParamKey: "pos/StakeMinimum", ParamVal: []byte(`"17"`)})
	add("MsgChangeParam/other-key", govTypes.MsgChangeParam{FromAddress: a20, ParamKey: "pos/StakeMinimuM", ParamVal: []byte(`"17"`)})
	add("MsgChangeParam/other-val", govTypes.MsgChangeParam{FromAddress: a20, ParamKey: "pos/StakeMinimum", ParamVal: []byte(`"18"`)})
	return items
}

func c20txs() []authTypes.StdTx {
	var txs []authTypes.StdTx
	fees := []sdk.Coins{sdk.NewCoins(), sdk.NewCoins(sdk.NewInt64Coin(chain.Denom, 10000)), sdk.NewCoins(sdk.NewInt64Coin("aaa", 1), sdk.NewCoin(chain.Denom, maxInt()))}
	memos := []string{"", "hello", strings.Repeat("m", 256)}
	for mi, m := range c20msgs() {
		fee := fees[mi%len(fees)]
		memo := memos[mi%len(memos)]
		ent := []int64{0, 1, -1, 1<<63 - 1}[mi%4]
		for _, keyKind := range []string{"ed", "secp", "multi", "none"} {
			ss := authTypes.StdSignature{Signature: bytes.Repeat([]byte{byte(mi + 1)}, 64)}
			switch keyKind {
			case "ed":
				ss.PublicKey = chain.Pub(2)
			case "secp":
				ss.PublicKey = chain.Pub(100)
			case "multi":
				ss.PublicKey = mustMulti(chain.Pub(5), mustMulti(chain.Pub(6), chain.Pub(107))).(crypto.PublicKeyMultiSignature)
				ss.Signature = multiSigBytes([]byte{1, 2, 3}, multiSigBytes([]byte{4}, []byte{5}))
			}
			if keyKind != "ed" && mi%3 != 0 {
				continue // every message with an ed25519 key; every third message with the other key kinds too
			}
			txs = append(txs, authTypes.NewStdTx(m.val.(sdk.Msg), fee, ss, memo, ent))
		}
	}
	// every message once more under one and the same envelope (fee, memo, entropy, signature), so that
	// two messages differing in a single field differ in nothing else
	{
		ss := authTypes.StdSignature{Signature: bytes.Repeat([]byte{9}, 64), PublicKey: chain.Pub(2)}
		for _, m := range c20msgs() {
			txs = append(txs, authTypes.NewStdTx(m.val.(sdk.Msg), fees[1], ss, "same envelope", 4242))
		}
	}
	// the same transaction with memos that differ only in surrounding white space or case, and in
	// how a fee is written: different content, so different sign bytes
	if ms := c20msgs(); len(ms) > 0 {
		ss := authTypes.StdSignature{Signature: bytes.Repeat([]byte{7}, 64), PublicKey: chain.Pub(2)}
		for _, memo := range []string{"thanks", "thanks ", " thanks", "thanks\n", "\tthanks", "Thanks", "thanks  "} {
			txs = append(txs, authTypes.NewStdTx(ms[0].val.(sdk.Msg), fees[1], ss, memo, 42))
		}
	}
	return txs
}

func c20storage() []catItem {
	var items []catItem
	t0 := time.Unix(0, 0).UTC()
	for _, st := range []sdk.StakeStatus{sdk.Unstaked, sdk.Unstaking, sdk.Staked} {
		for _, jailed := range []bool{false, true} {
			for _, tok := range []sdk.Int{sdk.ZeroInt(), sdk.NewInt(chain.MinStake), maxInt()} {
				v := posTypes.Validator{Address: chain.Addr(1), PublicKey: chain.Pub(1), Jailed: jailed, Status: st, StakedTokens: tok, UnstakingCompletionTime: t0}
				if st == sdk.Unstaking {
					v.UnstakingCompletionTime = chain.Epoch.Add(1234567 * time.Nanosecond)
				}
				items = append(items, catItem{name: fmt.Sprintf("Validator/%v/%v/%s", st, jailed, tok), val: v})
			}
		}
	}
	items = append(items, catItem{name: "Validator/secp-key", val: posTypes.Validator{Address: chain.Addr(100), PublicKey: chain.Pub(100), Status: sdk.Staked, StakedTokens: sdk.NewInt(7), UnstakingCompletionTime: t0}})
	ba := auth.NewBaseAccountWithAddress(chain.Addr(2))
	items = append(items, catItem{name: "BaseAccount/empty", val: &ba, iface: (*authExported.Account)(nil)})
	ba2 := auth.NewBaseAccountWithAddress(chain.Addr(2))
	ba2.Coins = sdk.NewCoins(sdk.NewInt64Coin("aaa", 3), sdk.NewCoin(chain.Denom, maxInt()))
	ba2.PubKey = chain.Pub(2)
	items = append(items, catItem{name: "BaseAccount/full", val: &ba2, iface: (*authExported.Account)(nil)})
	ba3 := auth.NewBaseAccountWithAddress(chain.Addr(100))
	ba3.PubKey = chain.Pub(100)
	items = append(items, catItem{name: "BaseAccount/secp", val: &ba3, iface: (*authExported.Account)(nil)})
	ma := authTypes.NewEmptyModuleAccount("staked_tokens_pool", "burner", "minter", "staking")
	ma.Coins = sdk.NewCoins(sdk.NewInt64Coin(chain.Denom, 5))
	items = append(items, catItem{name: "ModuleAccount", val: ma, iface: (*authExported.Account)(nil)})
	items = append(items, catItem{name: "ModuleAccount/no-perms", val: authTypes.NewEmptyModuleAccount("fee_collector"), iface: (*authExported.Account)(nil)})
	items = append(items, catItem{name: "Supply", val: authTypes.NewSupply(sdk.NewCoins(sdk.NewInt64Coin(chain.Denom, 99))), iface: (*authExported.SupplyI)(nil)})
	items = append(items, catItem{name: "SigningInfo/zero", val: posTypes.ValidatorSigningInfo{Address: chain.Addr(1), JailedUntil: t0}})
	items = append(items, catItem{name: "SigningInfo/full", val: posTypes.ValidatorSigningInfo{Address: chain.Addr(1), StartHeight: 1<<63 - 1, IndexOffset: 5, JailedUntil: posTypes.DoubleSignJailEndTime.UTC(), Tombstoned: true, MissedBlocksCounter: 3}})
	items = append(items, catItem{name: "PosParams", val: posTypes.DefaultParams()})
	items = append(items, catItem{name: "AuthParams", val: authTypes.DefaultParams()})
	items = append(items, catItem{name: "AuthParams/mult", val: authTypes.Params{MaxMemoCharacters: 1, TxSigLimit: 2, FeeMultiplier: authTypes.FeeMultipliers{FeeMultis: []authTypes.FeeMultiplier{{Key: "send", Multiplier: 3}}, Default: 2}}})
	acl := govTypes.ACL{{Key: "a/b", Addr: chain.Addr(1)}, {Key: "c/d", Addr: chain.Addr(2)}}
	items = append(items, catItem{name: "GovParams", val: govTypes.Params{ACL: acl, DAOOwner: chain.Addr(3), Upgrade: govTypes.NewUpgrade(9, "x")}})
	for _, cs := range []sdk.Coins{sdk.NewCoins(), sdk.NewCoins(sdk.NewInt64Coin("aaa", 1)), sdk.NewCoins(sdk.NewInt64Coin("aaa", 1), sdk.NewCoin("zzz", maxInt()))} {
		items = append(items, catItem{name: "Coins/" + cs.String(), val: cs})
	}
	for _, x := range []sdk.Int{sdk.ZeroInt(), sdk.OneInt(), sdk.NewInt(-1), maxInt(), maxInt().Neg()} {
		items = append(items, catItem{name: "Int/" + x.String(), val: x})
	}
	for _, x := range []sdk.Dec{sdk.ZeroDec(), sdk.OneDec(), sdk.SmallestDec(), sdk.NewDecWithPrec(-15, 1), sdk.NewDecFromBigIntWithPrec(new(big.Int).Sub(new(big.Int).Lsh(big.NewInt(1), 255), big.NewInt(1)), 18),
		// decimals whose scaled integer needs more than 255 bits (a Dec goes up to 315): an integer part of 2^200, the largest Int as a Dec, the largest Dec and its negative
		sdk.NewDecFromBigInt(new(big.Int).Lsh(big.NewInt(1), 200)), sdk.NewDecFromInt(maxInt()),
		sdk.NewDecFromBigIntWithPrec(new(big.Int).Sub(new(big.Int).Lsh(big.NewInt(1), 315), big.NewInt(1)), 18),
		sdk.NewDecFromBigIntWithPrec(new(big.Int).Neg(new(big.Int).Sub(new(big.Int).Lsh(big.NewInt(1), 315), big.NewInt(1))), 18)} {
		items = append(items, catItem{name: "Dec/" + x.String(), val: x})
	}
	for _, x := range []sdk.Uint{sdk.ZeroUint(), sdk.NewUint(1<<64 - 1), sdk.NewUintFromBigInt(new(big.Int).Lsh(big.NewInt(1), 255)), sdk.NewUintFromBigInt(new(big.Int).Sub(new(big.Int).Lsh(big.NewInt(1), 256), big.NewInt(1)))} {
		items = append(items, catItem{name: "Uint/" + x.String(), val: x})
	}
	items = append(items, catItem{name: "Address/20", val: chain.Addr(1)}, catItem{name: "Address/empty", val: sdk.Address{}},
		catItem{name: "Address/20-zero-bytes", val: sdk.Address(make([]byte, 20))}, catItem{name: "Address/20-FF-bytes", val: sdk.Address(bytes.Repeat([]byte{0xFF}, 20))})
	items = append(items, catItem{name: "PublicKey/ed", val: chain.Pub(1), iface: (*crypto.PublicKey)(nil)}, catItem{name: "PublicKey/secp", val: chain.Pub(100), iface: (*crypto.PublicKey)(nil)},
		catItem{name: "PublicKey/multi", val: mustMulti(chain.Pub(1), chain.Pub(100)).(crypto.PublicKeyMultiSignature), iface: (*crypto.PublicKey)(nil)})
	return items
}

// holder returns a pointer to encode from and a fresh pointer to decode into.
func (it catItem) holder() (src interface{}, mk func() interface{}) {
	if it.iface != nil {
		t := reflect.TypeOf(it.iface).Elem() // the interface type
		p := reflect.New(t)
		p.Elem().Set(reflect.ValueOf(it.val))
		return p.Interface(), func() interface{} { return reflect.New(t).Interface() }
	}
	t := reflect.TypeOf(it.val)
	p := reflect.New(t)
	p.Elem().Set(reflect.ValueOf(it.val))
	return p.Interface(), func() interface{} { return reflect.New(t).Interface() }
}

func guarded(f func() error) (err error, panicked string) {
	defer func() {
		if r := recover(); r != nil {
			panicked = fmt.Sprint(r)
		}
	}()
	return f(), ""
}

// roundTrips checks binary (bare and length-prefixed) and JSON round trips of one item.
func (c *c20) roundTrips(it catItem) (encodings map[string][]byte) {
	cdc := chain.MakeCodec()
	src, mk := it.holder()
	encodings = map[string][]byte{}
	type codecPair struct {
		name string
		enc  func(interface{}) ([]byte, error)
		dec  func([]byte, interface{}) error
	}
	pairs := []codecPair{
		{"amino-bare", cdc.MarshalBinaryBare, cdc.UnmarshalBinaryBare},
		{"amino-length-prefixed", cdc.MarshalBinaryLengthPrefixed, cdc.UnmarshalBinaryLengthPrefixed},
		{"json", cdc.MarshalJSON, cdc.UnmarshalJSON},
	}
	var canon [][]byte
	for _, p := range pairs {
		c.count("round trips", 1)
		var b1 []byte
		err, pn := guarded(func() error { var e error; b1, e = p.enc(src); return e })
		if err != nil || pn != "" {
			c.fail("C20|roundtrip|encode-fails|"+p.name, fmt.Sprintf("%s: %s encoding fails: %v %s", it.name, p.name, err, pn), it.name)
			continue
		}
		encodings[p.name] = b1
		dst := mk()
		err, pn = guarded(func() error { return p.dec(b1, dst) })
		if err != nil || pn != "" {
			c.fail("C20|roundtrip|decode-of-own-encoding-fails|"+p.name+"|"+typeClass(it.name), fmt.Sprintf("%s: %s decoding of its own encoding fails: %v %s", it.name, p.name, err, pn), it.name)
			continue
		}
		var b2 []byte
		err, pn = guarded(func() error { var e error; b2, e = p.enc(dst); return e })
		if err != nil || pn != "" || !sameEncoding(p.name, b1, b2) {
			c.fail("C20|roundtrip|value-changed|"+p.name+"|"+typeClass(it.name), fmt.Sprintf("%s: %s decode(encode(x)) re-encodes differently: %q vs %q (%v %s)", it.name, p.name, b1, b2, err, pn), it.name)
			continue
		}
		// the decoded value must be the same logical value under the other codecs too
		j, _ := cdc.MarshalJSON(dst)
		canon = append(canon, j)
		// ... judged with a codec the round trip did not go through: what came back from JSON must have
		// the binary encoding of what went in (and vice versa), so a loss both directions of one codec
		// agree on cannot hide
		other := cdc.MarshalBinaryBare
		otherName := "amino-bare"
		if p.name != "json" {
			other, otherName = cdc.MarshalJSON, "json"
		}
		o1, e1 := other(src)
		o2, e2 := other(dst)
		if e1 == nil && e2 == nil {
			eq := bytes.Equal(o1, o2)
			if otherName == "json" {
				eq = normJSON(o1) == normJSON(o2)
			}
			if !eq {
				c.fail("C20|roundtrip|value-changed-as-seen-by-"+otherName+"|"+p.name+"|"+typeClass(it.name), fmt.Sprintf("%s: after a %s round trip the value's %s encoding is %q, it was %q", it.name, p.name, otherName, o2, o1), it.name)
			}
		}
	}
	for i := 1; i < len(canon); i++ {
		if normJSON(canon[0]) != normJSON(canon[i]) {
			c.fail("C20|roundtrip|codecs-disagree|"+typeClass(it.name), fmt.Sprintf("%s: value decoded from different encodings differs: %s vs %s", it.name, canon[0], canon[i]), it.name)
		}
	}
	return
}

// normJSON canonicalises a JSON document for the "absent and empty values are equivalent" rule:
// null, "", [] and {} are the same empty value, and object members holding it are dropped.
func normJSON(js []byte) string {
	var v interface{}
	dec := json.NewDecoder(bytes.NewReader(js))
	dec.UseNumber()
	if err := dec.Decode(&v); err != nil {
		return "!" + string(js)
	}
	var norm func(v interface{}) interface{}
	norm = func(v interface{}) interface{} {
		switch t := v.(type) {
		case nil:
			return nil
		case string:
			if t == "" {
				return nil
			}
			return t
		case []interface{}:
			if len(t) == 0 {
				return nil
			}
			out := make([]interface{}, len(t))
			for i, x := range t {
				out[i] = norm(x)
			}
			return out
		case map[string]interface{}:
			out := map[string]interface{}{}
			for k, x := range t {
				if n := norm(x); n != nil {
					out[k] = n
				}
			}
			if len(out) == 0 {
				return nil
			}
			return out
		}
		return v
	}
	b, _ := json.Marshal(norm(v))
	return string(b)
}

func sameEncoding(codec string, a, b []byte) bool {
	if bytes.Equal(a, b) {
		return true
	}
	return codec == "json" && normJSON(a) == normJSON(b)
}

func typeClass(name string) string {
	if i := strings.Index(name, "/"); i > 0 {
		return name[:i]
	}
	return name
}

// ---- sign bytes ----

func (c *c20) signBytes() {
	cdc := chain.MakeCodec()
	txs := c20txs()
	type entry struct {
		tx authTypes.StdTx
		sb []byte
		id string // logical identity of the signed content
	}
	var es []entry
	for i, tx := range txs {
		sb, err := auth.StdSignBytes(chain.ChainID, tx.Entropy, tx.Fee, tx.Msg, tx.Memo)
		if err != nil {
			c.fail("C20|signbytes|error", fmt.Sprintf("tx %d: %v", i, err), nil)
			continue
		}
		// the bytes the ante handler verifies a signature against are those bytes
		c.count("sign bytes: verifier side", 1)
		if vb, verr := auth.GetSignBytes(chain.ChainID, tx); verr != nil || !bytes.Equal(vb, sb) {
			c.fail("C20|signbytes|verifier-side-differs", fmt.Sprintf("tx %d (memo %q): auth.GetSignBytes gives %s (err %v), StdSignBytes of the same fields %s", i, tx.Memo, vb, verr, sb), nil)
		}
		mj, _ := cdc.MarshalJSON(tx.Msg)
		id := fmt.Sprintf("%s|%d|%s|%s|%s", chain.ChainID, tx.Entropy, tx.Fee.String(), tx.Memo, mj)
		es = append(es, entry{tx, sb, id})
		// same logical content through other encodings => identical sign bytes
		bz, _ := cdc.MarshalBinaryLengthPrefixed(tx)
		var t2 authTypes.StdTx
		if err := cdc.UnmarshalBinaryLengthPrefixed(bz, &t2); err == nil {
			sb2, _ := auth.StdSignBytes(chain.ChainID, t2.Entropy, t2.Fee, t2.Msg, t2.Memo)
			c.count("sign bytes re-encodings", 1)
			if !bytes.Equal(sb, sb2) {
				cls := "differs-after-binary-roundtrip"
				if normJSON(sb) == normJSON(sb2) {
					cls = "empty-byte-slice-field-becomes-null|binary"
				}
				c.fail("C20|signbytes|"+cls, fmt.Sprintf("tx %d: sign bytes %s vs %s", i, sb, sb2), nil)
			}
		}
		js, _ := cdc.MarshalJSON(tx)
		for _, variant := range []string{"plain", "indent", "permuted"} {
			j2 := js
			switch variant {
			case "indent":
				var buf bytes.Buffer
				json.Indent(&buf, js, " ", "\t")
				j2 = buf.Bytes()
			case "permuted":
				j2 = permuteJSON(js)
			}
			var t3 authTypes.StdTx
			c.count("sign bytes re-encodings", 1)
			if err := cdc.UnmarshalJSON(j2, &t3); err != nil {
				c.fail("C20|signbytes|json-variant-undecodable|"+variant, fmt.Sprintf("tx %d: %s JSON does not decode: %v", i, variant, err), nil)
				continue
			}
			sb3, _ := auth.StdSignBytes(chain.ChainID, t3.Entropy, t3.Fee, t3.Msg, t3.Memo)
			if !bytes.Equal(sb, sb3) {
				cls := "differs-after-json-roundtrip|" + variant
				if normJSON(sb) == normJSON(sb3) {
					cls = "empty-byte-slice-field-becomes-null|json"
				}
				c.fail("C20|signbytes|"+cls, fmt.Sprintf("tx %d: sign bytes %s vs %s", i, sb, sb3), nil)
			}
		}
		// the harness's own independent rendering of the documented sign bytes must agree byte for byte
		c.count("sign bytes vs independent builder", 1)
		if ind := chain.CanonicalSignBytes(chain.ChainID, tx.Entropy, tx.Fee, tx.Msg, tx.Memo); !bytes.Equal(ind, sb) {
			c.fail("C20|signbytes|differs-from-independent-rendering", fmt.Sprintf("tx %d: StdSignBytes %s, independent rendering %s", i, sb, ind), nil)
		}
		// sign bytes are sorted JSON without insignificant whitespace
		if !bytes.Equal(sdk.MustSortJSON(sb), sb) {
			c.fail("C20|signbytes|not-canonical", fmt.Sprintf("tx %d: sign bytes are not key-sorted JSON: %s", i, sb), nil)
		}
		// another chain id => other bytes
		sbo, _ := auth.StdSignBytes("other", tx.Entropy, tx.Fee, tx.Msg, tx.Memo)
		if bytes.Equal(sbo, sb) {
			c.fail("C20|signbytes|chain-id-not-covered", fmt.Sprintf("tx %d: same sign bytes for another chain id", i), nil)
		}
	}
	// all pairs: different content in any signed field <=> different sign bytes
	for i := range es {
		for j := i + 1; j < len(es); j++ {
			c.count("sign bytes pairs", 1)
			same := es[i].id == es[j].id
			if same != bytes.Equal(es[i].sb, es[j].sb) {
				c.fail(fmt.Sprintf("C20|signbytes|injectivity|same-content=%v", same), fmt.Sprintf("txs %d and %d: same signed content=%v but sign bytes equal=%v: %s / %s", i, j, same, !same, es[i].sb, es[j].sb), nil)
			}
		}
	}
}

// permuteJSON re-serialises a JSON document with object keys in reverse order.
func permuteJSON(js []byte) []byte {
	var v interface{}
	dec := json.NewDecoder(bytes.NewReader(js))
	dec.UseNumber()
	if err := dec.Decode(&v); err != nil {
		return js
	}
	var w func(v interface{}, b *bytes.Buffer)
	w = func(v interface{}, b *bytes.Buffer) {
		switch t := v.(type) {
		case map[string]interface{}:
			var ks []string
			for k := range t {
				ks = append(ks, k)
			}
			sort.Sort(sort.Reverse(sort.StringSlice(ks)))
			b.WriteString("{ ")
			for i, k := range ks {
				if i > 0 {
					b.WriteString(" ,\n")
				}
				kb, _ := json.Marshal(k)
				b.Write(kb)
				b.WriteString(" : ")
				w(t[k], b)
			}
			b.WriteString(" }")
		case []interface{}:
			b.WriteString("[")
			for i, x := range t {
				if i > 0 {
					b.WriteString(", ")
				}
				w(x, b)
			}
			b.WriteString("]")
		default:
			x, _ := json.Marshal(t)
			b.Write(x)
		}
	}
	var b bytes.Buffer
	w(v, &b)
	return b.Bytes()
}

// ---- hostile bytes ----

// mutations yields every truncation and single-byte substitution of enc (all 256 values for short
// encodings; each bit flip, 0x00, 0xFF, +1, -1 for longer ones).
func mutations(enc []byte, f func(m []byte)) {
	for l := 0; l < len(enc); l++ {
		f(enc[:l])
	}
	buf := make([]byte, len(enc))
	for i := range enc {
		var vals []byte
		if len(enc) <= 64 {
			for v := 0; v < 256; v++ {
				vals = append(vals, byte(v))
			}
		} else {
			for b := 0; b < 8; b++ {
				vals = append(vals, enc[i]^(1<<uint(b)))
			}
			vals = append(vals, 0x00, 0xFF, enc[i]+1, enc[i]-1)
		}
		for _, v := range vals {
			if v == enc[i] {
				continue
			}
			copy(buf, enc)
			buf[i] = v
			f(buf)
		}
	}
	// length-prefix lies and extensions
	f(append(append([]byte{}, enc...), 0x00))
	f(append([]byte{0xFF, 0xFF, 0xFF, 0xFF, 0x0F}, enc...))
}

func (c *c20) hostile(items []catItem, encs []map[string][]byte) {
	cdc := chain.MakeCodec()
	var wg sync.WaitGroup
	sem := make(chan struct{}, runtime.NumCPU())
	for idx, it := range items {
		wg.Add(1)
		sem <- struct{}{}
		go func(it catItem, enc map[string][]byte) {
			defer wg.Done()
			defer func() { <-sem }()
			_, mk := it.holder()
			type cp struct {
				name string
				enc  func(interface{}) ([]byte, error)
				dec  func([]byte, interface{}) error
			}
			for _, p := range []cp{{"amino-length-prefixed", cdc.MarshalBinaryLengthPrefixed, cdc.UnmarshalBinaryLengthPrefixed}, {"amino-bare", cdc.MarshalBinaryBare, cdc.UnmarshalBinaryBare}, {"json", cdc.MarshalJSON, cdc.UnmarshalJSON}} {
				orig := enc[p.name]
				if orig == nil {
					continue
				}
				var n int64
				stop := false
				mutations(orig, func(m []byte) {
					if stop {
						return
					}
					n++
					dst := mk()
					err, pn := guarded(func() error { return p.dec(m, dst) })
					if pn != "" {
						c.fail("C20|hostile|decoder-panics|"+p.name+"|"+typeClass(it.name), fmt.Sprintf("%s: %s decoder panicked on %d mutated bytes %X: %.200s", it.name, p.name, len(m), m, pn), map[string]interface{}{"item": it.name, "codec": p.name, "bytes": fmt.Sprintf("%X", m)})
						stop = true
						return
					}
					if err != nil {
						return
					}
					// decoded: must re-encode consistently (encode, decode again, encode: fixed point)
					var b1, b2 []byte
					err, pn = guarded(func() error { var e error; b1, e = p.enc(dst); return e })
					if pn != "" {
						c.fail("C20|hostile|reencode-panics|"+p.name+"|"+typeClass(it.name), fmt.Sprintf("%s: value decoded from mutated %s bytes %X panics on encoding: %.200s", it.name, p.name, m, pn), map[string]interface{}{"item": it.name, "codec": p.name, "bytes": fmt.Sprintf("%X", m)})
						stop = true
						return
					}
					if err != nil {
						return // a value that cannot be encoded again is refused at that point
					}
					// consistency: re-encoding reaches a fixed point (an absent numeric field reads back as
					// zero, so the first re-encoding may normalise; the second one must not change anything)
					d2 := mk()
					err, pn = guarded(func() error { return p.dec(b1, d2) })
					if err == nil && pn == "" {
						_, _ = guarded(func() error { var e error; b2, e = p.enc(d2); return e })
					}
					var b3 []byte
					if err == nil && pn == "" && !sameEncoding(p.name, b1, b2) {
						d3 := mk()
						err, pn = guarded(func() error { return p.dec(b2, d3) })
						if err == nil && pn == "" {
							_, _ = guarded(func() error { var e error; b3, e = p.enc(d3); return e })
						}
						b1 = b2
						b2 = b3
					}
					if err != nil || pn != "" || !sameEncoding(p.name, b1, b2) {
						c.fail("C20|hostile|inconsistent-reencoding|"+p.name+"|"+typeClass(it.name), fmt.Sprintf("%s: mutated %s bytes %X decode to a value whose encoding %X does not decode back to itself (%v %s)", it.name, p.name, m, b1, err, pn), map[string]interface{}{"item": it.name, "codec": p.name, "bytes": fmt.Sprintf("%X", m)})
						stop = true
					}
				})
				c.count("hostile decodes", n)
			}
		}(it, encs[idx])
	}
	wg.Wait()
}

// hostileApp offers truncations and bit flips of valid transactions to CheckTx and DeliverTx of a live app.
func (c *c20) hostileApp(tier string) {
	txs := c20txs()
	step := 6
	if tier == "thorough" {
		step = 1
	}
	var wg sync.WaitGroup
	sem := make(chan struct{}, runtime.NumCPU())
	for ti := 0; ti < len(txs); ti += step {
		wg.Add(1)
		sem <- struct{}{}
		go func(ti int) {
			defer wg.Done()
			defer func() { <-sem }()
			raw, err := chain.MakeCodec().MarshalBinaryLengthPrefixed(txs[ti])
			if err != nil {
				return
			}
			d := chain.NewDriver(baseCfg())
			defer d.Close()
			d.RunBlock(chain.Block{}, nil)
			var evs []chain.Event
			var n int64
			flush := func() {
				if len(evs) == 0 {
					return
				}
				before := d.App.RawDump().Hash()
				r := d.RunBlock(chain.Block{Events: evs}, nil)
				for i, tr := range append(append([]chain.TxResult{}, r.Txs...), r.Aux...) {
					if tr.Code == chain.PanicCode {
						c.fail("C20|hostile|app-call-panics", fmt.Sprintf("mutated transaction %d of block: %.300s", i, tr.Log), map[string]interface{}{"tx": ti})
					}
				}
				_ = before
				evs = nil
			}
			add := func(m []byte) {
				n += 2
				cp := append([]byte{}, m...)
				evs = append(evs, chain.Event{Kind: "check", Tx: &chain.TxSpec{Msg: "raw", Raw: cp}}, chain.Event{Kind: "tx", Tx: &chain.TxSpec{Msg: "raw", Raw: cp}})
				if len(evs) >= 200 {
					flush()
				}
			}
			for l := 0; l < len(raw); l++ {
				add(raw[:l])
			}
			for i := range raw {
				for b := 0; b < 8; b++ {
					m := append([]byte{}, raw...)
					m[i] ^= 1 << uint(b)
					add(m)
				}
			}
			flush()
			c.count("hostile app calls", n)
		}(ti)
	}
	wg.Wait()
}

// ---- JSON unmarshalers of numerics and keys, out-of-range and garbage ----

func (c *c20) textDecoders() {
	two255 := new(big.Int).Lsh(big.NewInt(1), 255)
	two256 := new(big.Int).Lsh(big.NewInt(1), 256)
	garbage := []string{``, `""`, `"`, `"abc"`, `"1e5"`, `"0x10"`, `" 1"`, `"1 "`, `"--1"`, `"1.5"`, `null`, `{}`, `[]`, `123`, `"١٢٣"`, `"9999999999999999999999999999999999999999999999999999999999999999999999999999999999999999999999"`,
		`"` + two255.String() + `"`, `"-` + two255.String() + `"`, `"` + two256.String() + `"`, `"-1"`, `"1."`, `".5"`, `"1.0000000000000000001"`, `"1..2"`, `"-"`, `"+1"`}
	n := int64(0)
	for _, g := range garbage {
		n += 4
		var i sdk.Int
		if _, pn := guarded(func() error { return json.Unmarshal([]byte(g), &i) }); pn != "" {
			c.fail("C20|text|Int.UnmarshalJSON-panics", fmt.Sprintf("Int.UnmarshalJSON(%s) panicked: %s", g, pn), g)
		} else if err := json.Unmarshal([]byte(g), &i); err == nil {
			if i.BigInt().BitLen() > 255 {
				c.fail("C20|text|Int.UnmarshalJSON-accepts-out-of-range", fmt.Sprintf("Int.UnmarshalJSON(%s) accepted a value of %d bits", g, i.BigInt().BitLen()), g)
			}
		}
		var u sdk.Uint
		if _, pn := guarded(func() error { return json.Unmarshal([]byte(g), &u) }); pn != "" {
			c.fail("C20|text|Uint.UnmarshalJSON-panics", fmt.Sprintf("Uint.UnmarshalJSON(%s) panicked: %s", g, pn), g)
		} else if err := json.Unmarshal([]byte(g), &u); err == nil {
			// a decoded Uint must be a Uint: non-negative, at most 256 bits, and must re-encode to something that decodes to itself
			v, _ := new(big.Int).SetString(u.String(), 10)
			if v.Sign() < 0 || v.BitLen() > 256 {
				c.fail("C20|text|Uint.UnmarshalJSON-accepts-out-of-range", fmt.Sprintf("Uint.UnmarshalJSON(%s) accepted %s (sign %d, %d bits)", g, u, v.Sign(), v.BitLen()), g)
			}
		}
		var d sdk.Dec
		if _, pn := guarded(func() error { return json.Unmarshal([]byte(g), &d) }); pn != "" {
			c.fail("C20|text|Dec.UnmarshalJSON-panics", fmt.Sprintf("Dec.UnmarshalJSON(%s) panicked: %s", g, pn), g)
		} else if err := json.Unmarshal([]byte(g), &d); err == nil {
			b, e := json.Marshal(d)
			var d2 sdk.Dec
			if e != nil || json.Unmarshal(b, &d2) != nil || !d2.Equal(d) {
				c.fail("C20|text|Dec-inconsistent", fmt.Sprintf("Dec decoded from %s re-encodes inconsistently", g), g)
			}
		}
		var a sdk.Address
		if _, pn := guarded(func() error { return json.Unmarshal([]byte(g), &a) }); pn != "" {
			c.fail("C20|text|Address.UnmarshalJSON-panics", fmt.Sprintf("Address.UnmarshalJSON(%s) panicked: %s", g, pn), g)
		}
	}
	// hex / raw key constructors on garbage
	for _, g := range []string{"", "zz", "00", strings.Repeat("ab", 31), strings.Repeat("ab", 32), strings.Repeat("ab", 33), strings.Repeat("ab", 64), strings.Repeat("ab", 65)} {
		n += 2
		if _, pn := guarded(func() error { _, e := crypto.NewPublicKey(g); return e }); pn != "" {
			c.fail("C20|text|NewPublicKey-panics", fmt.Sprintf("crypto.NewPublicKey(%q) panicked: %s", g, pn), g)
		}
		if _, pn := guarded(func() error { _, e := sdk.AddressFromHex(g); return e }); pn != "" {
			c.fail("C20|text|AddressFromHex-panics", fmt.Sprintf("AddressFromHex(%q) panicked: %s", g, pn), g)
		}
	}
	// public keys given as JSON text with hex of the wrong length: an error, never a panic, whether the
	// concrete type is decoded directly or through the codec as a PublicKey interface value
	cdc := chain.MakeCodec()
	for _, hx := range []string{"", "abcd", strings.Repeat("ab", 31), strings.Repeat("ab", 34), strings.Repeat("ab", 64), "zz"} {
		n += 4
		js := []byte(`"` + hx + `"`)
		var ed crypto.Ed25519PublicKey
		if _, pn := guarded(func() error { return json.Unmarshal(js, &ed) }); pn != "" {
			c.fail("C20|text|Ed25519PublicKey.UnmarshalJSON-panics", fmt.Sprintf("Ed25519PublicKey.UnmarshalJSON(%s) panicked: %s", js, pn), hx)
		}
		var sp crypto.Secp256k1PublicKey
		if _, pn := guarded(func() error { return json.Unmarshal(js, &sp) }); pn != "" {
			c.fail("C20|text|Secp256k1PublicKey.UnmarshalJSON-panics", fmt.Sprintf("Secp256k1PublicKey.UnmarshalJSON(%s) panicked: %s", js, pn), hx)
		}
		for _, typ := range []string{"crypto/ed25519_public_key", "crypto/secp256k1_public_key"} {
			wrapped := []byte(`{"type":"` + typ + `","value":"` + hx + `"}`)
			var pk crypto.PublicKey
			if _, pn := guarded(func() error { return cdc.UnmarshalJSON(wrapped, &pk) }); pn != "" {
				c.fail("C20|text|PublicKey-interface-JSON-panics", fmt.Sprintf("codec.UnmarshalJSON(%s) into a PublicKey panicked: %s", wrapped, pn), hx)
			}
		}
	}
	c.count("text decoders", n)
}

// ---- store keys ----

func (c *c20) storeKeys() {
	powers := []int64{0, 1, 255, 256, 1 << 32, 1<<63 - 1}
	addrs := []sdk.Address{bytes.Repeat([]byte{0x00}, 20), bytes.Repeat([]byte{0xFF}, 20), chain.Addr(1), chain.Addr(2)}
	type pk struct {
		p   int64
		a   sdk.Address
		key []byte
	}
	var ks []pk
	n := int64(0)
	for _, p := range powers {
		for _, a := range addrs {
			// stake with power p (stake = p*10^6 + 999999 must give the same power)
			for _, extra := range []int64{0, 999999} {
				tok := sdk.TokensFromConsensusPower(p)
				if p < 1<<62 {
					tok = tok.AddRaw(extra)
				}
				v := posTypes.Validator{Address: a, StakedTokens: tok, Status: sdk.Staked}
				key := posTypes.KeyForValidatorInStakingSet(v)
				n++
				if got := posTypes.ParseValidatorPowerRankKey(key); !bytes.Equal(got, a) {
					c.fail("C20|keys|power-key-parse", fmt.Sprintf("power-index key of (%d,%X) parses back to address %X", p, a, got), nil)
				}
				if extra == 0 {
					ks = append(ks, pk{p, a, key})
				}
			}
		}
	}
	for i := range ks {
		for j := range ks {
			n++
			// order of keys = power ascending, then address descending
			want := 0
			switch {
			case ks[i].p < ks[j].p:
				want = -1
			case ks[i].p > ks[j].p:
				want = 1
			default:
				want = -bytes.Compare(ks[i].a, ks[j].a)
			}
			if got := bytes.Compare(ks[i].key, ks[j].key); got != want {
				c.fail("C20|keys|power-key-order", fmt.Sprintf("keys of (%d,%X) and (%d,%X) compare %d, values compare %d", ks[i].p, ks[i].a, ks[j].p, ks[j].a, got, want), nil)
			}
		}
	}
	times := []time.Time{
		time.Unix(0, 0).UTC(), time.Unix(0, 1).UTC(), time.Unix(0, -1).UTC(), time.Unix(59, 999999999).UTC(), time.Unix(60, 0).UTC(),
		time.Date(1999, 12, 31, 23, 59, 59, 999999999, time.UTC), time.Date(2000, 1, 1, 0, 0, 0, 0, time.UTC), time.Date(1, 1, 1, 0, 0, 0, 0, time.UTC),
		time.Date(9999, 12, 31, 23, 59, 59, 999999999, time.UTC), chain.Epoch, chain.Epoch.Add(time.Nanosecond), chain.Epoch.Add(100 * time.Millisecond), chain.Epoch.Add(10 * time.Millisecond),
		time.Date(2026, 1, 1, 0, 0, 0, 0, time.FixedZone("x", 3600)),
	}
	for _, t1 := range times {
		k1 := posTypes.KeyForUnstakingValidators(t1)
		n++
		if back, err := sdk.ParseTimeBytes(k1[1:]); err != nil || !back.Equal(t1) {
			c.fail("C20|keys|time-key-parse", fmt.Sprintf("unstaking-queue key of %s parses back to %s (%v)", t1, back, err), nil)
		}
		for _, t2 := range times {
			n++
			k2 := posTypes.KeyForUnstakingValidators(t2)
			want := 0
			if t1.Before(t2) {
				want = -1
			} else if t1.After(t2) {
				want = 1
			}
			if got := bytes.Compare(k1, k2); got != want {
				c.fail("C20|keys|time-key-order", fmt.Sprintf("queue keys of %s and %s compare %d, times compare %d", t1.UTC(), t2.UTC(), got, want), nil)
			}
		}
	}
	for _, a := range addrs {
		n += 4
		if got := posTypes.AddressFromKey(posTypes.KeyForValByAllVals(a)); !bytes.Equal(got, a) {
			c.fail("C20|keys|validator-key-parse", "validator key does not parse back", nil)
		}
		if got := posTypes.AddressFromKey(posTypes.KeyForValidatorAward(a)); !bytes.Equal(got, a) {
			c.fail("C20|keys|award-key-parse", "award key does not parse back", nil)
		}
		if got := posTypes.AddressFromKey(posTypes.KeyForValidatorBurn(a)); !bytes.Equal(got, a) {
			c.fail("C20|keys|burn-key-parse", "burn key does not parse back", nil)
		}
		if got := posTypes.GetValidatorSigningInfoAddress(posTypes.GetValidatorSigningInfoKey(a)); !bytes.Equal(got, a) {
			c.fail("C20|keys|signing-info-key-parse", "signing info key does not parse back", nil)
		}
	}
	c.count("store keys", n)
}

// C20 entry point.
func C20(tier string) int {
	run := ev.NewRun("C20", tier, "exploration")
	c := &c20{run: run, kinds: map[string]int64{}}
	var items []catItem
	items = append(items, c20msgs()...)
	for i, tx := range c20txs() {
		items = append(items, catItem{name: fmt.Sprintf("StdTx/%d/%s", i, tx.Msg.Type()), val: tx, iface: (*sdk.Tx)(nil)})
	}
	items = append(items, c20storage()...)
	encs := make([]map[string][]byte, len(items))
	for i, it := range items {
		encs[i] = c.roundTrips(it)
	}
	c.signBytes()
	c.hostile(items, encs)
	c.hostileApp(tier)
	c.textDecoders()
	c.storeKeys()
	// the tx decoder of the application on the empty string and on each catalogue tx
	dec := auth.DefaultTxDecoder(chain.MakeCodec())
	if _, err := dec(nil); err == nil {
		c.fail("C20|txdecoder|accepts-empty", "the tx decoder accepted empty bytes", nil)
	}
	// ... on the canonical bytes of each catalogue transaction (decodes to a value that encodes to the
	// same bytes) and on those bytes followed by more (a length-prefixed encoding ends where its prefix
	// says: accepting a suffix gives one signed transaction several byte strings, i.e. several hashes)
	var ndec int64
	for ti, tx := range c20txs() {
		raw, err := chain.MakeCodec().MarshalBinaryLengthPrefixed(tx)
		if err != nil {
			continue
		}
		ndec++
		got, derr := dec(raw)
		if derr != nil {
			c.fail("C20|txdecoder|refuses-canonical", fmt.Sprintf("catalogue transaction %d: the tx decoder refuses its canonical encoding: %v", ti, derr), map[string]interface{}{"tx": ti})
			continue
		}
		if back, err := chain.MakeCodec().MarshalBinaryLengthPrefixed(got); err != nil || !bytes.Equal(back, raw) {
			c.fail("C20|txdecoder|round-trip", fmt.Sprintf("catalogue transaction %d: decoded by the tx decoder it encodes to %X, original %X (%v)", ti, back, raw, err), map[string]interface{}{"tx": ti})
		}
		for _, suffix := range [][]byte{{0x00}, {0x01}, {0xFF}, {0x00, 0x00}, raw, raw[:1]} {
			ndec++
			ext := append(append([]byte{}, raw...), suffix...)
			var t2 sdk.Tx
			var e2 sdk.Error
			if _, pn := guarded(func() error { t2, e2 = dec(ext); return nil }); pn != "" {
				c.fail("C20|txdecoder|panics", fmt.Sprintf("catalogue transaction %d followed by %X: the tx decoder panicked: %.200s", ti, suffix, pn), map[string]interface{}{"tx": ti})
			} else if e2 == nil && t2 != nil {
				c.fail("C20|txdecoder|trailing-bytes-accepted", fmt.Sprintf("catalogue transaction %d: its %d canonical bytes followed by %d more bytes (%.16X...) are accepted by the tx decoder as the same transaction (a second byte string, hence a second hash, for one signed transaction)", ti, len(raw), len(suffix), suffix), map[string]interface{}{"tx": ti, "suffix": fmt.Sprintf("%X", suffix)})
				break
			}
		}
	}
	c.count("tx decoder calls", ndec)
	_ = abci.RequestCheckTx{}
	run.Set("evaluations", c.eval)
	run.Set("distinct_nontrivial", int64(len(items)))
	run.Set("catalogue_items", len(items))
	run.Set("by_part", c.kinds)
	run.Set("rule", "value catalogue (every message type x boundary field values, StdTx with every key kind / without key, accounts, module accounts, supply, validators in every status, signing infos, parameter sets, coins, Int/Dec/Uint boundary values, addresses, public keys): amino bare / length-prefixed / JSON round trips; sign bytes: every catalogue transaction re-encoded through binary and three JSON renderings, all pairs for injectivity; hostile bytes: every truncation and every single-byte substitution (256 values for encodings <= 64 bytes, else 8 bit flips + 00 + FF + +-1) of every catalogue encoding to its decoder, truncations and bit flips of transactions to CheckTx/DeliverTx of a live application; the application's tx decoder on every catalogue transaction (round trip) and on its bytes followed by six suffixes (refused); JSON/hex decoders on a garbage catalogue; power-index / unstaking-queue / address keys: all pairs for order, all for parse-back; distinct_nontrivial = catalogue items")
	run.Sample(map[string]interface{}{"item": "StdTx/3/send", "mutation": "byte 17 -> 0xFF", "oracle": "decoder returns an error or a value whose encoding is a fixed point; no panic"})
	run.Assume("exhaustive within the catalogue and single-edit mutations; multi-byte corruption is not covered")
	return run.Finish()
}

func init() { Registry["C20"] = C20 }
