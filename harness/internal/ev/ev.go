// Package ev: evidence files, violations, replays and known findings — the interface contract.
package ev

import (
	"bufio"
	"encoding/json"
	"fmt"
	"os"
	"path/filepath"
	"sort"
	"strings"
	"sync"
	"time"
)

var Root = "/verif"

// Finding is one line of known_findings.jsonl.
type Finding struct {
	Status    string `json:"status"` // "open" | "fixed"
	Property  string `json:"property"`
	Signature string `json:"signature"` // oracle + trigger signature; trailing '*' = prefix match
	What      string `json:"what"`
	Commit    string `json:"commit,omitempty"`
}

// Violation is one oracle failure.
type Violation struct {
	Signature string      `json:"signature"`
	What      string      `json:"what"`
	Replay    interface{} `json:"replay"`
}

// Run collects coverage and violations of one check run.
type Run struct {
	Prop  string
	Tier  string
	Seed  int64
	Level string
	start time.Time

	mu          sync.Mutex
	Cov         map[string]interface{}
	Assumptions []string
	findings    []Finding
	viol        []Violation // unlisted
	known       map[string]int
	knownWhat   map[string]string
	seenSig     map[string]bool
	Samples     []interface{}
	MaxViol     int
}

func NewRun(prop, tier, level string) *Run {
	seed := int64(0)
	if s := os.Getenv("VERIF_SEED"); s != "" {
		fmt.Sscan(s, &seed)
	}
	r := &Run{Prop: prop, Tier: tier, Seed: seed, Level: level, start: time.Now(), Cov: map[string]interface{}{},
		known: map[string]int{}, knownWhat: map[string]string{}, seenSig: map[string]bool{}, MaxViol: 5}
	if s := os.Getenv("VERIF_MAXVIOL"); s != "" {
		fmt.Sscan(s, &r.MaxViol)
	}
	r.findings = LoadFindings()
	return r
}

func LoadFindings() []Finding {
	f, err := os.Open(filepath.Join(Root, "known_findings.jsonl"))
	if err != nil {
		return nil
	}
	defer f.Close()
	var out []Finding
	sc := bufio.NewScanner(f)
	sc.Buffer(make([]byte, 1<<20), 1<<20)
	for sc.Scan() {
		line := strings.TrimSpace(sc.Text())
		if line == "" || strings.HasPrefix(line, "#") {
			continue
		}
		var fd Finding
		if err := json.Unmarshal([]byte(line), &fd); err != nil {
			fmt.Fprintf(os.Stderr, "known_findings.jsonl: bad line: %v\n", err)
			continue
		}
		out = append(out, fd)
	}
	return out
}

func (r *Run) matchKnown(sig string) *Finding {
	for i := range r.findings {
		f := &r.findings[i]
		if f.Status != "open" || f.Property != r.Prop {
			continue
		}
		if f.Signature == sig || (strings.HasSuffix(f.Signature, "*") && strings.HasPrefix(sig, strings.TrimSuffix(f.Signature, "*"))) {
			return f
		}
	}
	return nil
}

// IsKnown reports whether a signature is a listed open finding (so explorers can stop extending).
func (r *Run) IsKnown(sig string) bool { return r.matchKnown(sig) != nil }

// Report records an oracle failure. Returns true if it is a listed known finding.
func (r *Run) Report(sig, what string, replay interface{}) bool {
	return r.ReportN(sig, what, replay, 1)
}

// ReportN records n occurrences of the same oracle failure.
func (r *Run) ReportN(sig, what string, replay interface{}, n int) bool {
	r.mu.Lock()
	defer r.mu.Unlock()
	if f := r.matchKnown(sig); f != nil {
		r.known[f.Signature] += n
		r.knownWhat[f.Signature] = f.What
		return true
	}
	if r.seenSig[sig] {
		return false
	}
	r.seenSig[sig] = true
	if len(r.viol) < r.MaxViol {
		r.viol = append(r.viol, Violation{sig, what, replay})
	}
	return false
}

func (r *Run) Violations() int { r.mu.Lock(); defer r.mu.Unlock(); return len(r.seenSig) }

func (r *Run) Set(k string, v interface{}) { r.mu.Lock(); r.Cov[k] = v; r.mu.Unlock() }

func (r *Run) Add(k string, n int64) {
	r.mu.Lock()
	cur, _ := r.Cov[k].(int64)
	r.Cov[k] = cur + n
	r.mu.Unlock()
}

func (r *Run) Get(k string) int64 {
	r.mu.Lock()
	defer r.mu.Unlock()
	v, _ := r.Cov[k].(int64)
	return v
}

func (r *Run) Sample(s interface{}) {
	r.mu.Lock()
	if len(r.Samples) < 6 {
		r.Samples = append(r.Samples, s)
	}
	r.mu.Unlock()
}

func (r *Run) Assume(s ...string) { r.Assumptions = append(r.Assumptions, s...) }

// Finish writes the evidence file, prints KNOWN-FINDING / VIOLATION lines and returns the exit code.
func (r *Run) Finish() int {
	r.mu.Lock()
	defer r.mu.Unlock()
	cov := r.Cov
	if len(r.Samples) > 0 {
		cov["samples"] = r.Samples
	}
	if _, ok := cov["exhaustive"]; !ok {
		cov["exhaustive"] = true
	}
	kf := map[string]int{}
	for k, v := range r.known {
		kf[k] = v
	}
	cov["known_findings_hit"] = kf
	evd := map[string]interface{}{
		"property_id": r.Prop, "tier": r.Tier, "seed": r.Seed, "level": r.Level, "coverage": cov,
		"assumptions": r.Assumptions, "wall_s": time.Since(r.start).Seconds(), "violations": len(r.seenSig),
	}
	if r.Assumptions == nil {
		evd["assumptions"] = []string{}
	}
	os.MkdirAll(filepath.Join(Root, "evidence"), 0o755)
	bz, _ := json.MarshalIndent(evd, "", " ")
	if err := os.WriteFile(filepath.Join(Root, "evidence", r.Prop+".json"), append(bz, '\n'), 0o644); err != nil {
		fmt.Fprintln(os.Stderr, "cannot write evidence:", err)
		return 2
	}
	var sigs []string
	for s := range r.known {
		sigs = append(sigs, s)
	}
	sort.Strings(sigs)
	for _, s := range sigs {
		fmt.Printf("KNOWN-FINDING: property=%s %s [%s] (hit %d times)\n", r.Prop, r.knownWhat[s], s, r.known[s])
	}
	if len(r.viol) == 0 {
		fmt.Printf("OK property=%s tier=%s wall=%.1fs\n", r.Prop, r.Tier, time.Since(r.start).Seconds())
		return 0
	}
	dir := filepath.Join(Root, ".work", "replays")
	os.MkdirAll(dir, 0o755)
	for i, v := range r.viol {
		p := filepath.Join(dir, fmt.Sprintf("%s-%d.json", r.Prop, i))
		bz, _ := json.MarshalIndent(map[string]interface{}{"property": r.Prop, "signature": v.Signature, "what": v.What, "replay": v.Replay}, "", " ")
		os.WriteFile(p, append(bz, '\n'), 0o644)
		fmt.Printf("VIOLATION property=%s replay=%s\n", r.Prop, p)
		fmt.Printf("  signature: %s\n  what: %s\n", v.Signature, v.What)
	}
	if len(r.seenSig) > len(r.viol) {
		fmt.Printf("  (%d distinct violation signatures in total)\n", len(r.seenSig))
	}
	return 1
}
