// Package shim is the controlled scheduler that replaces "sync" inside the instrumented
// store/cachekv/store.go (see cmd/vinstr): Mutex.Lock/Unlock and the Yield() calls inserted before
// every statement of every *Store method are scheduling points. Exactly one thread runs at a time;
// hand-off goes through per-thread channels. When no exploration is active the Mutex is a plain
// sync.Mutex, so the instrumented package behaves normally outside the explorer.
package shim

import (
	"fmt"
	"sync"
)

// Mutex replaces sync.Mutex in the instrumented file.
type Mutex struct {
	real  sync.Mutex
	held  bool
	owner int
}

type thread struct {
	id      int
	wake    chan struct{}
	done    bool
	blocked *Mutex
	started bool
}

// Point is one scheduling decision of an execution.
type Point struct {
	Enabled        []int // canonical order: running thread first if still enabled, then ascending ids
	Chosen         int   // index into Enabled
	RunningEnabled bool
}

// Exec is the controlled execution context.
type Exec struct {
	threads  []*thread
	cur      int
	prefix   []int
	Points   []Point
	Deadlock bool
	Err      string
	doneCh   chan struct{}
	mu       sync.Mutex
	steps    int
	MaxSteps int
}

var active *Exec

func current() *Exec { return active }

// Run executes bodies under the scheduler, replaying prefix and taking choice 0 afterwards.
func Run(prefix []int, bodies []func()) *Exec {
	e := &Exec{prefix: prefix, doneCh: make(chan struct{}), MaxSteps: 100000}
	for i := range bodies {
		e.threads = append(e.threads, &thread{id: i, wake: make(chan struct{}, 1)})
	}
	active = e
	for i, b := range bodies {
		i, b := i, b
		go func() {
			<-e.threads[i].wake // wait until first scheduled
			defer func() {
				if r := recover(); r != nil {
					e.mu.Lock()
					if e.Err == "" {
						e.Err = fmt.Sprintf("thread %d panicked: %v", i, r)
					}
					e.mu.Unlock()
				}
				e.finish(i)
			}()
			b()
		}()
	}
	// pick the first thread
	e.cur = -1
	e.schedule(-1)
	<-e.doneCh
	active = nil
	return e
}

func (e *Exec) enabled(running int) (ids []int, runningEnabled bool) {
	if running >= 0 {
		t := e.threads[running]
		if !t.done && t.blocked == nil {
			ids = append(ids, running)
			runningEnabled = true
		}
	}
	for _, t := range e.threads {
		if t.id != running && !t.done && t.blocked == nil {
			ids = append(ids, t.id)
		}
	}
	return
}

// schedule picks the next thread to run; called by the thread that gives up control (or -1 at start).
// Returns the chosen thread id, or -1 if none (all done or deadlock).
func (e *Exec) schedule(from int) int {
	ids, re := e.enabled(from)
	if len(ids) == 0 {
		alldone := true
		for _, t := range e.threads {
			if !t.done {
				alldone = false
			}
		}
		if !alldone {
			e.Deadlock = true
		}
		close(e.doneCh)
		return -1
	}
	choice := 0
	if len(ids) > 1 {
		i := len(e.Points)
		if i < len(e.prefix) {
			choice = e.prefix[i]
			if choice >= len(ids) {
				e.Err = fmt.Sprintf("replay divergence at point %d: choice %d of %d enabled", i, choice, len(ids))
				choice = 0
			}
		}
		e.Points = append(e.Points, Point{Enabled: ids, Chosen: choice, RunningEnabled: re})
	}
	next := ids[choice]
	e.cur = next
	if next != from {
		e.threads[next].wake <- struct{}{}
	}
	return next
}

// yield is a scheduling point for the running thread.
func (e *Exec) yield(self int) {
	e.steps++
	if e.steps > e.MaxSteps {
		if e.Err == "" {
			e.Err = "step bound exceeded (livelock?)"
		}
		return
	}
	next := e.schedule(self)
	if next != self && next >= 0 {
		<-e.threads[self].wake
	}
}

func (e *Exec) finish(self int) {
	e.threads[self].done = true
	e.schedule(self)
}

// Self returns the id of the running thread.
func Self() int {
	if e := current(); e != nil {
		return e.cur
	}
	return -1
}

// Yield is inserted before every statement of the instrumented methods.
func Yield() {
	if e := current(); e != nil {
		e.yield(e.cur)
	}
}

// Lock is a scheduling point; a held mutex disables the thread until Unlock.
func (m *Mutex) Lock() {
	e := current()
	if e == nil {
		m.real.Lock()
		return
	}
	self := e.cur
	e.yield(self)
	for m.held {
		e.threads[self].blocked = m
		next := e.schedule(self)
		if next < 0 {
			// deadlock: park forever (the explorer has already been notified)
			select {}
		}
		<-e.threads[self].wake
	}
	m.held, m.owner = true, self
}

// Unlock releases the mutex and is a scheduling point.
func (m *Mutex) Unlock() {
	e := current()
	if e == nil {
		m.real.Unlock()
		return
	}
	if !m.held {
		panic("shim: unlock of unlocked mutex")
	}
	m.held = false
	for _, t := range e.threads {
		if t.blocked == m {
			t.blocked = nil
		}
	}
	e.yield(e.cur)
}

// Preemptions counts the preemptive switches among the first n points.
func (e *Exec) Preemptions(n int) int {
	c := 0
	for i := 0; i < n && i < len(e.Points); i++ {
		p := e.Points[i]
		if p.RunningEnabled && p.Chosen != 0 {
			c++
		}
	}
	return c
}

// Choices returns the choice sequence of the execution.
func (e *Exec) Choices() []int {
	out := make([]int, len(e.Points))
	for i, p := range e.Points {
		out[i] = p.Chosen
	}
	return out
}

// RWMutex replaces sync.RWMutex (a change of the wrapper's lock to a reader/writer lock must not stop
// the explorer from building): readers share, a writer excludes; every call is a scheduling point.
type RWMutex struct {
	real    sync.RWMutex
	tag     Mutex // what blocked threads wait on
	writer  bool
	readers int
}

func (m *RWMutex) wait(e *Exec, self int, busy func() bool) {
	e.yield(self)
	for busy() {
		e.threads[self].blocked = &m.tag
		next := e.schedule(self)
		if next < 0 {
			select {}
		}
		<-e.threads[self].wake
	}
}

func (m *RWMutex) release(e *Exec) {
	for _, t := range e.threads {
		if t.blocked == &m.tag {
			t.blocked = nil
		}
	}
	e.yield(e.cur)
}

func (m *RWMutex) Lock() {
	e := current()
	if e == nil {
		m.real.Lock()
		return
	}
	m.wait(e, e.cur, func() bool { return m.writer || m.readers > 0 })
	m.writer = true
}

func (m *RWMutex) Unlock() {
	e := current()
	if e == nil {
		m.real.Unlock()
		return
	}
	if !m.writer {
		panic("shim: unlock of unlocked rwmutex")
	}
	m.writer = false
	m.release(e)
}

func (m *RWMutex) RLock() {
	e := current()
	if e == nil {
		m.real.RLock()
		return
	}
	m.wait(e, e.cur, func() bool { return m.writer })
	m.readers++
}

func (m *RWMutex) RUnlock() {
	e := current()
	if e == nil {
		m.real.RUnlock()
		return
	}
	if m.readers <= 0 {
		panic("shim: runlock of unlocked rwmutex")
	}
	m.readers--
	m.release(e)
}
