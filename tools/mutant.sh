#!/bin/bash
# tools/mutant.sh <repo-relative-file> <python-replace-old> <python-replace-new> <check...>
# applies a textual mutation to /repo, runs the given check command, restores the file.
f="$1"; old="$2"; new="$3"; shift 3
cd /repo || exit 2
python3 - "$f" "$old" "$new" <<'PY' || { echo "mutation did not apply"; exit 3; }
import sys
p,old,new=sys.argv[1:4]
s=open(p).read()
if old not in s: sys.exit(1)
open(p,'w').write(s.replace(old,new,1))
PY
cd /verif && "$@"; rc=$?
git -C /repo checkout -- "$f"
echo "mutant exit=$rc"
exit $rc
