#!/bin/bash
# tools/eval_seed.sh <out-dir> <seed-id> <property> [check-tier] [extra props...]
# 1. verifies the seeded change in a scratch worktree: applies, full suite passes, demo fails with / passes without
# 2. applies it to /repo, runs the property's check, restores /repo
# 3. stores patch, demo and meta.json under /verif/seeded/<seed-id>/
set -u
OUT="$1"; ID="$2"; PROP="$3"; TIER="${4:-quick}"; shift 4 2>/dev/null
EXTRA="$@"
export GOFLAGS=-mod=mod GOPROXY=off GOSUMDB=off GOTOOLCHAIN=local
WT=/tmp/evalwt-$ID
git -C /repo worktree add -q --detach "$WT" HEAD || exit 2
cleanup() { git -C /repo worktree remove --force "$WT" >/dev/null 2>&1; }
trap cleanup EXIT
cd "$WT"
# demo placement
DEMOCMD=$(cat "$OUT/demo_cmd.txt" 2>/dev/null | tr '\n' ' ')
place_demo() {
  for f in "$OUT"/*_test.go; do
    [ -f "$f" ] || continue
    bn=$(basename "$f")
    d=$(grep -oE "[A-Za-z0-9_./]+/$bn" "$OUT/demo_cmd.txt" | head -1 | xargs -r dirname | sed 's#^\./##')
    [ -n "$d" ] && [ -d "$WT/$d" ] || { echo "cannot place $bn" >&2; continue; }
    cp "$f" "$WT/$d/" && echo "$d/$(basename $f)"
  done
}
DEMOFILES=$(place_demo)
PKGS=$(for f in $DEMOFILES; do echo "./$(dirname $f)/"; done | sort -u | tr '\n' ' ')
TESTS=$(for f in $DEMOFILES; do grep -ohE '^func (Test[A-Za-z0-9_]+)' "$WT/$f" | sed 's/func //'; done | tr '\n' '|' | sed 's/|$//')
echo "demo files: $DEMOFILES ; pkgs: $PKGS ; tests: $TESTS"
go test -vet=off -count=1 -run "^($TESTS)\$" $PKGS > /tmp/eval-$ID-without.log 2>&1; RC_WITHOUT=$?
git apply "$OUT/patch.diff" || { echo "PATCH DOES NOT APPLY"; exit 3; }
go test -vet=off -count=1 -run "^($TESTS)\$" $PKGS > /tmp/eval-$ID-with.log 2>&1; RC_WITH=$?
for f in $DEMOFILES; do rm -f "$WT/$f"; done
go build ./... > /tmp/eval-$ID-suite.log 2>&1 && go test -vet=off -count=1 ./... >> /tmp/eval-$ID-suite.log 2>&1; RC_SUITE=$?
echo "demo without change rc=$RC_WITHOUT (want 0); with change rc=$RC_WITH (want !=0); suite with change rc=$RC_SUITE (want 0)"
# run the checks against the patched scratch worktree, from a scratch copy of /verif (neither /repo
# nor /verif/evidence is touched, so this can run next to anything else)
EV=/tmp/evalv-$ID
rm -rf "$EV"; mkdir -p "$EV"
rsync -a --exclude .git --exclude .work --exclude seeded /verif/ "$EV"/
cleanup() { git -C /repo worktree remove --force "$WT" >/dev/null 2>&1; rm -rf "$EV"; }
RES=""
for P in $PROP $EXTRA; do
  VERIF_DEADLINE_S=1400 VERIF_REPO="$WT" timeout 1500 "$EV"/vrun $P $TIER > /tmp/eval-$ID-$P.log 2>&1; rc=$?
  cp "$EV"/evidence/$P.json /tmp/eval-$ID-$P.evidence.json 2>/dev/null
  sig=$(grep -m3 'signature:' /tmp/eval-$ID-$P.log | sed 's/^ *signature: //' | tr '\n' ';')
  echo "check $P $TIER exit=$rc  $sig"
  RES="$RES{\"check\":\"$P\",\"tier\":\"$TIER\",\"exit\":$rc,\"signatures\":\"$(echo $sig | sed 's/"/\\"/g')\"},"
done
mkdir -p /verif/seeded/$ID
cp "$OUT/patch.diff" /verif/seeded/$ID/
cp "$OUT"/*_test.go "$OUT"/demo_cmd.txt "$OUT"/notes.md /verif/seeded/$ID/ 2>/dev/null
for f in /verif/seeded/$ID/*_test.go; do [ -f "$f" ] && mv "$f" "$f.txt"; done
python3 - "$ID" "$PROP" "$RC_WITHOUT" "$RC_WITH" "$RC_SUITE" "[${RES%,}]" "$DEMOFILES" <<'PY'
import json,sys
id,prop,rcw,rcc,rcs,res,demos=sys.argv[1:8]
notes=open(f"/verif/seeded/{id}/notes.md").read() if True else ""
meta={"id":id,"property":prop,"demo_files":demos.split(),"demo_passes_without_change":rcw=="0","demo_fails_with_change":rcc!="0","repo_test_suite_passes_with_change":rcs=="0","checks_run":json.loads(res),"detected":any(c["exit"]==1 for c in json.loads(res)),
 "what_it_needs":"see notes.md","ran":"tools/eval_seed.sh (scratch worktree: demo + suite, then VERIF_REPO=<worktree> vrun <prop> <tier> from a scratch copy of /verif)"}
json.dump(meta,open(f"/verif/seeded/{id}/meta.json","w"),indent=1)
print(json.dumps(meta)[:600])
PY
