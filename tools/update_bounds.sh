#!/bin/bash
# tools/update_bounds.sh <thorough-sweep-log>: replaces the table of DESIGN.md section 8 with the
# output of tools/mkbounds.py (quick numbers from evidence/, thorough numbers from the sweep log)
set -e
cd "$(dirname "$0")/.."
python3 tools/mkbounds.py "$1" > .work/bounds.md
python3 - <<'PY'
import re
s=open('DESIGN.md').read()
t=open('.work/bounds.md').read().rstrip('\n')
i=s.index('| id | level | quick: what is enumerated')
j=s.index('\n## 9.', i)
s=s[:i]+t+'\n'+s[j:]
open('DESIGN.md','w').write(s)
PY
