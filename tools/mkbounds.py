#!/usr/bin/env python3
"""Prints the section-8 table of DESIGN.md from the evidence files (quick tier) and, if given,
a thorough-sweep log (lines '== <id> thorough took <n>s' followed by a dict line)."""
import json, sys, re, glob, os, ast
root = os.path.dirname(os.path.dirname(os.path.abspath(__file__)))
th = {}
if len(sys.argv) > 1:
    cur = None
    for ln in open(sys.argv[1], errors='replace'):
        m = re.match(r'== (C\d\d) thorough took (\d+)s', ln)
        if m:
            cur = m.group(1); th[cur] = {'t': int(m.group(2))}
        elif cur and ln.startswith('{'):
            try:
                th[cur].update(ast.literal_eval(ln.strip()))
            except Exception:
                pass
            cur = None
def fmt(n):
    if n is None: return '-'
    n = int(n)
    if n >= 10_000_000: return f'{n/1e6:.0f}M'
    if n >= 1_000_000: return f'{n/1e6:.1f}M'
    if n >= 10_000: return f'{n/1e3:.0f}k'
    return str(n)
print('| id | level | quick: what is enumerated | quick: evaluations / states / transitions / s | thorough: evaluations / states / s / exhaustive |')
print('|---|---|---|---|---|')
for f in sorted(glob.glob(os.path.join(root, 'evidence', 'C*.json'))):
    d = json.load(open(f)); c = d['coverage']; pid = d['property_id']
    if 'scenarios' in c and isinstance(c['scenarios'], list) and c['scenarios'] and 'K' in c['scenarios'][0]:
        what = '; '.join(f"{s['name']} (A={s['alphabet']}, K={s['K']}, D={s['D']}{', prelude '+str(s['prelude']) if s.get('prelude') else ''})" for s in c['scenarios'])
    elif 'jobs' in c:
        what = '; '.join(str(j) for j in c['jobs'])
    else:
        what = (c.get('rule') or '')[:300]
    q = f"{fmt(c.get('evaluations'))} / {fmt(c.get('states'))} / {fmt(c.get('transitions'))} / {d['wall_s']:.0f}"
    t = th.get(pid)
    tt = '-' if not t else f"{fmt(t.get('evaluations'))} / {fmt(t.get('states'))} / {t['t']} / {t.get('exhaustive')}" + (f" ({t.get('cap_hit')})" if t.get('cap_hit') else '')
    print(f"| {pid} | {d['level']} | {what} | {q} | {tt} |")
