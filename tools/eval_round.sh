#!/bin/bash
# tools/eval_round.sh <round-dir-prefix> <suffixA> <suffixB> <prop>...   e.g. /tmp/out4- G H C01 C02
# evaluates <prefix><prop>/A as <prop>-<suffixA> and /B as <prop>-<suffixB> with the quick tier
PRE="$1"; SA="$2"; SB="$3"; shift 3
for p in "$@"; do
  for v in A B; do
    n=$([ $v = A ] && echo $SA || echo $SB)
    [ -f "$PRE$p/$v/patch.diff" ] || { echo "=== $p-$n: no patch"; continue; }
    echo "=== $p-$n"
    /verif/tools/eval_seed.sh "$PRE$p/$v" "$p-$n" "$p" quick 2>&1 | grep -a -E "^demo without|^check|cannot|PATCH" | cut -c1-300
  done
done
