#!/usr/bin/env python3
"""Validates MANIFEST.json and every evidence/<id>.json against the schemas in /root/.vp."""
import json, sys, glob, os
try:
    import jsonschema
except ImportError:
    sys.path.insert(0, '/opt/veriftools/pyvenv/lib/python3.11/site-packages')
    import jsonschema
root = os.path.dirname(os.path.dirname(os.path.abspath(__file__)))
bad = 0
ms = json.load(open('/root/.vp/MANIFEST.schema.json'))
es = json.load(open('/root/.vp/EVIDENCE.schema.json'))
m = json.load(open(os.path.join(root, 'MANIFEST.json')))
for e in jsonschema.Draft202012Validator(ms).iter_errors(m):
    print('MANIFEST:', e.message[:300]); bad += 1
for f in sorted(glob.glob(os.path.join(root, 'evidence', '*.json'))):
    d = json.load(open(f))
    for e in jsonschema.Draft202012Validator(es).iter_errors(d):
        print(os.path.basename(f), ':', list(e.path), e.message[:300]); bad += 1
print('ok' if bad == 0 else f'{bad} problems')
sys.exit(1 if bad else 0)
