#!/usr/bin/env python3
"""Generates /verif/MANIFEST.json from the table below and validates it against the schema."""
import json, subprocess, sys

ALL = ["C%02d" % i for i in range(1, 21)]

CHECKS = {
 "C18": dict(
   engine="enum",
   category="exploration",
   technique="bounded exhaustive enumeration of operand pairs against a math/big oracle",
   text="Every ordered pair of a boundary operand alphabet (71 Int, 43 Uint, 127 raw Dec values incl. rounding-tie and overflow-bound neighbours, 64 coin sets) is run through every binary operation, every operand through every unary operation and conversion, and compared with exact math/big arithmetic plus the documented rounding rule; out-of-range <=> panic; operands re-read after each call. Exhaustive within the alphabet, silent outside it.",
   design_ref="DESIGN.md §3 C18",
   note="math/big is trusted; the alphabet is finite (boundaries named in the statement), so values away from the boundaries are not covered.",
 ),
}

HIST_NOTE = "Trusted base: the harness wiring of the application (internal/chain: BaseApp+auth+pos+gov from the repository's constructors, fake Tendermint with a unix-socket tx index and a validator-set pipeline mirror) and the reference model internal/posmodel written from the property statements. Bounded: histories of D blocks with at most K deviating blocks over the stated alphabet; nothing is claimed beyond the bound or outside the alphabet."
def hist(pid, text):
    return dict(engine="explore", category="model_checking",
      technique="explicit-state bounded exhaustive exploration of block histories on the real application (deviation-bounded, then depth-bounded), each ABCI call compared with a one-step reference model and state invariants",
      text=text, design_ref="DESIGN.md §3 "+pid, note=HIST_NOTE)

CHECKS.update({
 "C02": hist("C02", "All histories within the bound are executed on the real BaseApp application in worker subprocesses; after every ABCI call (every transaction, BeginBlock, EndBlock) the raw store dump is decoded and checked: sum of all stored balances == supply record, no negative component, and the supply moved exactly by what the statement-level model requires (awards minted, slash/forced-unstake/DAO burns)."),
 "C04": hist("C04", "After every ABCI call of every explored history: staked-pool balance == sum of recorded stakes of staked+unstaking validators (+ coins sent to the pool directly), and stake / maturity transactions move exactly the staked amount between account, record and pool (one-step model comparison)."),
 "C05": hist("C05", "For InitChain and every EndBlock of every explored history the update batch is applied to a mirror of Tendermint's validator set under Tendermint's own rules (no duplicate key, no removal of an absent key, no negative power) and the resulting set is compared with the MaxValidators highest-powered staked, unjailed validators computed from the raw store."),
 "C06": hist("C06", "Every status change of every validator between consecutive ABCI calls must be the one the statement-level model licenses for the call that ran (own funded stake, own begin-unstake, maturity at the first block with time >= completion, forced unstake); after every call the power index, the unstaking queue and the minimum-stake invariant are checked by raw iteration."),
 "C07": hist("C07", "Every slash (queued burn, downtime, double-sign evidence of every age/target class) in every explored history is compared with exact integer arithmetic min(trunc(p*10^6*f), stake) on stake, pool and supply; forced unstake below the minimum; evidence against unknown/unstaked/tombstoned/too-old targets must burn nothing and BeginBlock must return."),
 "C08": hist("C08", "Per validator the stored counter, offset and bit array are compared after every BeginBlock with (a) the one-step ring model and (b) a harness-side history of its last W expected votes; downtime punishment must happen at exactly the first qualifying block and clear the window."),
 "C09": hist("C09", "Jailed validators must be absent from the mirror of Tendermint's set after every block; MsgUnjail must succeed exactly when the statement's conditions hold (jailed, stake >= minimum, time >= jailed-until, not tombstoned); double sign must tombstone and jail permanently."),
 "C10": hist("C10", "At every BeginBlock the fees collected in the previous block must reach exactly its proposer (or the pos module account for an unknown proposer) and every queued award must be minted exactly once to its address, supply moving by the same sum, queue empty afterwards."),
 "C12": dict(engine="opseq", category="model_checking",
   technique="exhaustive enumeration of write histories x pruning options on the real rootmulti/IAVL stores against a map model, with reopen and LoadVersion of every version after every commit",
   text="Every write history over N IAVL substores + a transient store, V versions, 7 pruning options (store names s1.. and names that are prefixes of each other): before every commit every retained version is read on a CopyStore and through CacheMultiStoreWithVersion while the writes are pending; after every commit the store is reopened on a copy of the database and every version 1..latest+1 is loaded; at the end failed loads on the live handle, one handle moved to every retained older version and back, a second handle catching up, a substore mounted for the first time followed by four commits, and a reopen under every other pruning option / lazily / with the options set after loading; a further pass mounts every non-empty subset of the substores on its own database (kept open, restarted eagerly or lazily before every commit) and reopens copies of all databases at every version after every commit. Commit ids, hashes, full contents, pruning (error, never data) and transient emptiness are compared with a map model.",
   design_ref="DESIGN.md §3 C12", note="MemDB stands in for the on-disk database; bounded by N<=3, V<=4 and the 6-element per-store write alphabet."),
 "C13": dict(engine="crashdb", category="fault_enumeration",
   technique="exhaustive crash-point enumeration over the logged durable writes of every Commit, closed under commutation of substore order",
   text="For every write history and every commit, every crash state (any subset of substores fully committed, at most one between its save and prune batch, commit-info not yet written; plus the complete commit) is materialised, reopened, checked for a single consistent version, the interrupted block re-executed (same hash) and one more block committed; a second fault model lets the k-th write of a Commit fail; the enumeration is repeated with the store reopened before every commit (eagerly, lazily, with the pruning options set after loading), with older versions loaded on a copy before every commit, with prefix-related store names, and at the application level (chain histories, also under a block gas limit and with historical queries).",
   design_ref="DESIGN.md §3 C13", note="A Batch.Write is atomic (goleveldb journal); torn batches and fsync ordering are outside the crash model; MemDB stands in for the on-disk database."),
 "C14": dict(engine="opseq", category="model_checking",
   technique="exhaustive enumeration of (history, store, key, height, prove) queries on the real rootmulti store with proof verification against recorded app hashes",
   text="For every write history, between blocks and in the middle of a block, every store x key catalogue x height 0..latest+1 x prove is queried through rootmulti.Query; values are compared with the model snapshot of the height; proofs are verified with the repository's proof runtime against that height's app hash and must fail against other heights, other values and the opposite presence; pruned/future heights must serve nothing and say so; every height is also read through CacheMultiStoreWithVersion; at the application level BaseApp.Query over a chain history (3 pruning options, after a restart, after module queries at every past height) and 11 store / module queries after every transaction of a block.",
   design_ref="DESIGN.md §3 C14", note="Only /key queries; BaseApp-level height defaulting is exercised by the chain harness; bounded by the key catalogue and N<=2, V<=4."),
 "C15": dict(engine="opseq", category="model_checking",
   technique="exhaustive enumeration of operation programs on stacks of real cachekv wrappers against an overlay-of-maps model",
   text="Every contract-respecting program of L operations (Get/Has/Set/Delete/drained iterations over 6 ranges x 2 directions/Write/CacheWrap/child Write/discard/open-step-close iterators with writes in between) on up to 3 nested cachekv wrappers over MemDB, IAVL and prefix parents; every return value, iteration sequence, parent content and final view compared with the model; plus every program of the shape reads / own writes / writes to the parent from elsewhere (directly or through a sibling wrapper) / own writes / Write over two keys, plain and nested parents, judged on the parent's content after Write.",
   design_ref="DESIGN.md §3 C15", note="Sequential programs bounded by L and the 4-key alphabet, no state merging; the concurrent clause is decided by cmd/vsched: every interleaving of 24 scenarios (2-3 goroutines, 1-2 operations each on colliding keys) of the instrumented cachekv store up to 2 (quick) / 3 (thorough) preemptions, histories checked for linearizability with porcupine, plus a free-running -race pass of the same bodies."),
 "C16": dict(engine="opseq", category="model_checking",
   technique="exhaustive enumeration of operation programs through prefix/gas/trace wrappers and all their stackings against a map model, an independent cost table and the decoded trace",
   text="Prefix: all programs on 6 prefixes (incl. FF-terminated and empty) over parents preloaded with boundary-key subsets, parent content compared byte for byte. Gas: all programs re-run under every limit one below/at/above each cumulative charge and pre-charged to overflow at each charge. Trace: decoded JSON lines equal the operation list. All ordered stackings of prefix/gas/trace/cache for result transparency.",
   design_ref="DESIGN.md §3 C16", note="Shipped KVGasConfig is the documented table; bounded by program length 2-4 and the key/bound alphabets."),
})

CHECKS.update({
 "C01": hist("C01", "Differential exploration: every history within the bound is executed on a baseline instance and on 7-9 independently constructed variant instances (other store mount order, restart from the database after every commit / once in the middle, interleaved CheckTx/Simulate/Query traffic around every event, PruneEverything with and without restarts, keepRecent/keepEvery, syncable); InitChain validators and every BeginBlock/DeliverTx/EndBlock/Commit/Info response are compared byte for byte (Log excluded). A failure that does not reproduce on re-execution is itself reported (nondeterminism)."),
 "C03": dict(engine="chain+enum", category="exploration",
   technique="exhaustive finite matrices of transactions through the real CheckTx/DeliverTx of a live chain with an independent acceptance oracle",
   text="Union of complete sub-products: message kind x signer account kind (ed25519, secp256k1, multisig, nested multisig) x signing variant (own key, other key of same/other type, foreign/swapped/short/duplicate/extra multisig components, other multisig, single key) x key source; every post-signing mutation; fee x fee-multiplier setting (incl. products beyond 2^63) x message x signer; balance grid; memo bounds; replays after commit; multiplier changes and negative fee entries inside one block. Oracle: accept iff memo ok, key available, not indexed, fee >= required, signature verifies under Tendermint's primitives / positional N-of-N rule over the transaction's own sign bytes, key address == declared signer, balance >= fee; accepted => fee moves signer -> collector and nobody else pays; rejected => no balance moves.",
   design_ref="DESIGN.md §3 C03", note="Exhaustive within the stated sub-products only. Transactions are signed over the harness's own rendering of the documented sign bytes (envelope and message part), never over the repository's StdSignBytes. Ante acceptance is observed through result code, message/action event and fee-collector balance."),
 "C11": hist("C11", "Histories mixing context blocks (stake, begin-unstake, missed vote, evidence, raised minimum stake, transfer) with a catalogue of 92 judged calls (undecodable bytes, ValidateBasic / ante / handler failures and handler panics, CheckTx, Simulate, 26 Query forms) at every position of a block, and the validator life-cycle messages from five non-initial states. Oracle: full raw-store-dump equality around every read-only call and every transaction refused before its handler; only signer -> fee collector may move for a transaction whose handler failed; panics outside recover are reported; a control run without the read-only calls must give byte-identical responses and app hashes."),
 "C17": hist("C17", "Matrix at depth 1 (22 parameter keys x 4 senders x 5 value kinds, MsgUpgrade x senders, DAO transfer/burn/unknown action x senders x amounts) and all hand-over pairs/triples at depth 2-3 executed as signed transactions on the real application in worker subprocesses. Oracle on the raw params store, all balances and supply: a parameter's stored bytes change only if the sender is the ACL owner of that key as of before the message, the result is OK and nothing else changed; DAO funds move only for the DAO owner, by exactly the amount, within the balance; every other store key unchanged."),
 "C19": dict(engine="enum+opseq", category="model_checking",
   technique="exhaustive verification matrices for single keys and multisignatures; exhaustive operation programs on real keybases against a map model",
   text="Single keys: every (key, message, signature) triple of 4 keys x 5 messages, every single-bit flip / truncation / extension of every valid signature. Multisig: 6 key sets (mixed types, nested, a key listed twice), every component list of length n-1..n+1 over correct/foreign/other-message/empty components, garbage encodings, builder outputs in every insertion order; VerifyBytes must equal the positional N-of-N rule evaluated with Tendermint's primitives. Keybase: every program of L operations over 35 operations (import, create, update, delete, sign, export, export+import, coinbase selection; right/wrong/empty/unicode/whitespace/1 KiB passphrases) on the in-memory keybase and a reduced alphabet on the directory-backed lazy keybase against a map model; failed operations must leave every stored record byte-identical; the full life cycle of an armored secp256k1 key in both keybases.",
   design_ref="DESIGN.md §3 C19", note="Tendermint's primitives are the trusted oracle; scrypt/AES-GCM are not re-verified; bounded by program length 2 (quick) / 3 (thorough)."),
 "C20": dict(engine="enum", category="exploration",
   technique="exhaustive catalogues with round-trip and all-pairs oracles plus exhaustive single-edit mutation of every encoding offered to the decoders and to a live application",
   text="222 catalogue values (every message type x boundary fields, StdTx with every key kind, accounts, validators in every status, parameter sets, numerics at the range bounds, keys) through amino bare / length-prefixed / JSON round trips (absent == empty); sign bytes identical across binary and three JSON re-encodings and pairwise distinct for distinct signed content; every truncation and single-byte substitution of every encoding to its decoder (no panic; decoded values re-encode to a fixed point) and truncations/bit flips of transactions to CheckTx/DeliverTx of a live application; the application's tx decoder on canonical bytes and on canonical bytes followed by a suffix; garbage catalogue for the JSON/hex decoders; all pairs of power-index / unstaking-queue keys for order and parse-back.",
   design_ref="DESIGN.md §3 C20", note="Exhaustive within the catalogue and single-edit mutations only."),
})

NOT_BUILT = "check not built yet in this session (see DESIGN.md §3 for the planned model-checking formulation); not claimed until it runs"

def main():
    with open("/repo/.git/HEAD") as f:
        pass
    hooks_commits = []
    m = {
      "version": 1,
      "setup_cmd": "./vrun --setup",
      "hooks": {
        "guard": "verif",
        "enable": "go build -tags verif (checks are built by ./vrun from /repo's working tree; no hook files are needed so far: instrumentation is applied with go build -overlay at check time)",
        "baseline_off_cmd": "cd /repo && GOFLAGS=-mod=mod GOPROXY=off GOSUMDB=off GOTOOLCHAIN=local go test -vet=off -count=1 ./...",
        "source_commits": hooks_commits,
        "add_only": True,
      },
      "engines": [
        {"name": "chain", "path": "harness/internal/chain", "serves_properties": ["C01","C02","C03","C04","C05","C06","C07","C08","C09","C10","C11","C17"], "kind_free_text": "application under test built from the repository's constructors + fake Tendermint (unix-socket tx index, validator-set pipeline mirror) + raw store dump"},
        {"name": "explore", "path": "harness/internal/checks/explore.go", "serves_properties": ["C02","C04","C05","C06","C07","C08","C09","C10"], "kind_free_text": "deviation-bounded exhaustive history exploration sharded over worker subprocesses; reference model harness/internal/posmodel"},
        {"name": "opseq", "path": "harness/internal/checks", "serves_properties": ["C12","C14","C15","C16"], "kind_free_text": "exhaustive operation programs / write histories against map models"},
        {"name": "crashdb", "path": "harness/internal/crashdb", "serves_properties": ["C13"], "kind_free_text": "write-logging database and crash-state enumeration"},
        {"name": "enum", "path": "harness/internal/checks", "serves_properties": ["C18","C19","C20"], "kind_free_text": "bounded exhaustive input enumeration with independent oracles"},
      ],
      "checks": [],
      "notes": "All checks are subcommands of one Go binary rebuilt from /repo's working tree by ./vrun on every invocation. Known findings: known_findings.jsonl.",
      "not_applicable": [],
    }
    for pid in ALL:
        c = CHECKS.get(pid)
        if not c:
            m["not_applicable"].append({"property_id": pid, "reason": NOT_BUILT})
            continue
        m["checks"].append({
          "property_id": pid,
          "quick_cmd": "./vrun %s quick" % pid,
          "thorough_cmd": "./vrun %s thorough" % pid,
          "evidence_file": "/verif/evidence/%s.json" % pid,
          "replay_cmd_template": "./vrun %s --replay {path}" % pid,
          "engine": c["engine"],
          "level_claimed": {"category": c["category"], "text": c["text"], "design_ref": c["design_ref"]},
          "level_note": c["note"],
          "technique": c["technique"],
        })
    json.dump(m, open("/verif/MANIFEST.json", "w"), indent=1)
    print("wrote MANIFEST.json: %d checks, %d not_applicable" % (len(m["checks"]), len(m["not_applicable"])))

if __name__ == "__main__":
    main()
