#!/usr/bin/env python3
"""Generates /verif/MANIFEST.json from the table below and validates it against the schema."""
import json, subprocess, sys

ALL = ["C%02d" % i for i in range(1, 21)]

CHECKS = {
 "C18": dict(
   engine="enum",
   category="exploration",
   technique="bounded exhaustive enumeration of operand pairs against a math/big oracle",
   text="Every ordered pair of a boundary operand alphabet (71 Int, 43 Uint, 127 raw Dec values incl. rounding-tie and overflow-bound neighbours, 64 coin sets) is run through every binary operation, every operand through every unary operation and conversion, and compared with exact math/big arithmetic plus the documented rounding rule; out-of-range <=> panic; operands re-read after each call. Exhaustive within the alphabet, silent outside it.",
   design_ref="DESIGN.md §3 C18",
   note="math/big is trusted; the alphabet is finite (boundaries named in the statement), so values away from the boundaries are not covered.",
 ),
}

NOT_BUILT = "check not built yet in this session (see DESIGN.md §3 for the planned model-checking formulation); not claimed until it runs"

def main():
    with open("/repo/.git/HEAD") as f:
        pass
    hooks_commits = []
    m = {
      "version": 1,
      "setup_cmd": "./vrun --setup",
      "hooks": {
        "guard": "verif",
        "enable": "go build -tags verif (checks are built by ./vrun from /repo's working tree; no hook files are needed so far: instrumentation is applied with go build -overlay at check time)",
        "baseline_off_cmd": "cd /repo && GOFLAGS=-mod=mod GOPROXY=off GOSUMDB=off GOTOOLCHAIN=local go test -vet=off -count=1 ./...",
        "source_commits": hooks_commits,
        "add_only": True,
      },
      "engines": [
        {"name": "chain", "path": "harness/internal/chain", "serves_properties": ["C01","C02","C03","C04","C05","C06","C07","C08","C09","C10","C11","C17"], "kind_free_text": "application under test built from the repository's constructors + fake Tendermint (unix-socket tx index, validator-set pipeline mirror) + raw store dump"},
        {"name": "enum", "path": "harness/internal/checks", "serves_properties": ["C18","C19","C20"], "kind_free_text": "bounded exhaustive input enumeration with independent oracles"},
      ],
      "checks": [],
      "notes": "All checks are subcommands of one Go binary rebuilt from /repo's working tree by ./vrun on every invocation. Known findings: known_findings.jsonl.",
      "not_applicable": [],
    }
    for pid in ALL:
        c = CHECKS.get(pid)
        if not c:
            m["not_applicable"].append({"property_id": pid, "reason": NOT_BUILT})
            continue
        m["checks"].append({
          "property_id": pid,
          "quick_cmd": "./vrun %s quick" % pid,
          "thorough_cmd": "./vrun %s thorough" % pid,
          "evidence_file": "/verif/evidence/%s.json" % pid,
          "replay_cmd_template": "./vrun %s --replay {path}" % pid,
          "engine": c["engine"],
          "level_claimed": {"category": c["category"], "text": c["text"], "design_ref": c["design_ref"]},
          "level_note": c["note"],
          "technique": c["technique"],
        })
    json.dump(m, open("/verif/MANIFEST.json", "w"), indent=1)
    print("wrote MANIFEST.json: %d checks, %d not_applicable" % (len(m["checks"]), len(m["not_applicable"])))

if __name__ == "__main__":
    main()
